//! Engine `svc` (C11, C12): the real `actix-service` combinators over scripted, type-erased leaves,
//! driven by a wake-driven manual executor that hands a fresh, wake-counting waker identity to every
//! top-level poll.  Scripted leaves park a clone of the waker whenever they answer Pending; after
//! every poll all parked wakers fire; a future is polled again only if the waker of its latest poll
//! was woken (otherwise `r=stalled`: a lost wake-up) — it is never busy-polled.
//!
//! Line protocol (same as lean/Driver/Svc.lean):
//!   case <name> | svc <S> | fac <F> <cfg> | ready | call <req>
//!   S ::= (leaf id cp ok|err rp ok|err) | (fn id ok|err) | (map S f) | (maperr S f) | (then S S)
//!       | (apply pre|short|post k S) | (boxed|rcboxed|rc|refcell|ref|box|refmut S) | (mw S t)
//!   F ::= (fleaf id ip ok|err cfg|nocfg S) | (ffn id ok|err) | (fmap F f) | (fmaperr F f)
//!       | (fmapiniterr F f) | (fthen F F) | (fapply kind k F) | (transform t tp ok|err plain|rc|arc F)
//!       | (transformerr t tp ok|err plain|rc|arc m F) | (applycfg S f ip ok|err)
//!       | (applycfgfac F f ip ok|err) | (mapconfig F f) | (unitconfig F) | (fboxed F) | (frc F) | (farc F)
//!   observations: `[events] r=<result> k=<wake-ups received>` (no `k` after a panic)
#![allow(clippy::type_complexity)]
use std::{
    cell::{Cell, RefCell},
    collections::HashMap,
    fmt,
    future::Future,
    io::Write,
    pin::Pin,
    rc::Rc,
    sync::Arc,
    task::{Context, Poll, RawWaker, RawWakerVTable, Waker},
};

use actix_service::{
    apply, apply_cfg, apply_cfg_factory, apply_fn, apply_fn_factory, boxed, fn_factory,
    fn_factory_with_config, fn_service, into_service, map_config, unit_config, Service, ServiceExt,
    ServiceFactory, ServiceFactoryExt, Transform, TransformExt,
};
use vh::*;

// ------------------------------------------------------------------------------------------------
// AST of the op language
// ------------------------------------------------------------------------------------------------

#[derive(Clone, Copy, Debug, PartialEq, Eq)]
enum AK {
    Pre,
    Short,
    Post,
}
#[derive(Clone, Copy, Debug, PartialEq, Eq)]
enum WK {
    Boxed,
    RcBoxed,
    Rc,
    RefCell,
    Ref,
    Box,
    RefMut,
}
/// how a `Transform` value is handed to `apply`: by value, in an `Rc`, in an `Arc`
#[derive(Clone, Copy, Debug, PartialEq, Eq)]
enum PK {
    Plain,
    Rc,
    Arc,
}

#[derive(Clone, Debug, PartialEq, Eq)]
enum S {
    Leaf { id: u32, cp: u32, cok: bool, rp: u32, rok: bool },
    Fn { id: u32, cok: bool },
    Map(Box<S>, u32),
    MapErr(Box<S>, u32),
    Then(Box<S>, Box<S>),
    Apply(Box<S>, AK, u32),
    Wrap(WK, Box<S>),
    Mw(Box<S>, u32),
    /// wrapper around a shim that re-enters the wrapped service itself during `call` / `poll_ready`
    Reenter(WK, u32, Box<S>),
}

#[derive(Clone, Debug, PartialEq, Eq)]
enum F {
    Leaf { id: u32, ip: u32, iok: bool, use_cfg: bool, s: S },
    Fn { id: u32, cok: bool },
    Map(Box<F>, u32),
    MapErr(Box<F>, u32),
    MapInitErr(Box<F>, u32),
    Then(Box<F>, Box<F>),
    Apply(Box<F>, AK, u32),
    /// `apply(transform, factory)`; `mie: Some(m)` = `TransformExt::map_init_err(transform, m)`
    Transform { t: u32, tp: u32, tok: bool, pk: PK, mie: Option<u32>, a: Box<F> },
    ApplyCfg { s: S, f: u32, ip: u32, iok: bool },
    ApplyCfgFac { a: Box<F>, f: u32, ip: u32, iok: bool },
    MapConfig(Box<F>, u32),
    UnitConfig(Box<F>),
    Boxed(Box<F>),
    Rc(Box<F>),
    Arc(Box<F>),
    /// `Rc` / `Arc` around a shim factory that re-enters the same `Rc` / `Arc` during `new_service`
    Reenter(PK, u32, Box<F>),
}

fn oe(b: bool) -> &'static str {
    if b {
        "ok"
    } else {
        "err"
    }
}

impl fmt::Display for AK {
    fn fmt(&self, f: &mut fmt::Formatter<'_>) -> fmt::Result {
        f.write_str(match self {
            AK::Pre => "pre",
            AK::Short => "short",
            AK::Post => "post",
        })
    }
}
impl fmt::Display for WK {
    fn fmt(&self, f: &mut fmt::Formatter<'_>) -> fmt::Result {
        f.write_str(match self {
            WK::Boxed => "boxed",
            WK::RcBoxed => "rcboxed",
            WK::Rc => "rc",
            WK::RefCell => "refcell",
            WK::Ref => "ref",
            WK::Box => "box",
            WK::RefMut => "refmut",
        })
    }
}
impl fmt::Display for PK {
    fn fmt(&self, f: &mut fmt::Formatter<'_>) -> fmt::Result {
        f.write_str(match self {
            PK::Plain => "plain",
            PK::Rc => "rc",
            PK::Arc => "arc",
        })
    }
}
impl fmt::Display for S {
    fn fmt(&self, o: &mut fmt::Formatter<'_>) -> fmt::Result {
        match self {
            S::Leaf { id, cp, cok, rp, rok } => write!(o, "(leaf {id} {cp} {} {rp} {})", oe(*cok), oe(*rok)),
            S::Fn { id, cok } => write!(o, "(fn {id} {})", oe(*cok)),
            S::Map(s, f) => write!(o, "(map {s} {f})"),
            S::MapErr(s, f) => write!(o, "(maperr {s} {f})"),
            S::Then(a, b) => write!(o, "(then {a} {b})"),
            S::Apply(s, k, n) => write!(o, "(apply {k} {n} {s})"),
            S::Wrap(w, s) => write!(o, "({w} {s})"),
            S::Mw(s, t) => write!(o, "(mw {s} {t})"),
            S::Reenter(w, k, s) => write!(o, "(reenter {w} {k} {s})"),
        }
    }
}
impl fmt::Display for F {
    fn fmt(&self, o: &mut fmt::Formatter<'_>) -> fmt::Result {
        match self {
            F::Leaf { id, ip, iok, use_cfg, s } => {
                write!(o, "(fleaf {id} {ip} {} {} {s})", oe(*iok), if *use_cfg { "cfg" } else { "nocfg" })
            }
            F::Fn { id, cok } => write!(o, "(ffn {id} {})", oe(*cok)),
            F::Map(a, f) => write!(o, "(fmap {a} {f})"),
            F::MapErr(a, f) => write!(o, "(fmaperr {a} {f})"),
            F::MapInitErr(a, f) => write!(o, "(fmapiniterr {a} {f})"),
            F::Then(a, b) => write!(o, "(fthen {a} {b})"),
            F::Apply(a, k, n) => write!(o, "(fapply {k} {n} {a})"),
            F::Transform { t, tp, tok, pk, mie: None, a } => write!(o, "(transform {t} {tp} {} {pk} {a})", oe(*tok)),
            F::Transform { t, tp, tok, pk, mie: Some(m), a } => write!(o, "(transformerr {t} {tp} {} {pk} {m} {a})", oe(*tok)),
            F::ApplyCfg { s, f, ip, iok } => write!(o, "(applycfg {s} {f} {ip} {})", oe(*iok)),
            F::ApplyCfgFac { a, f, ip, iok } => write!(o, "(applycfgfac {a} {f} {ip} {})", oe(*iok)),
            F::MapConfig(a, f) => write!(o, "(mapconfig {a} {f})"),
            F::UnitConfig(a) => write!(o, "(unitconfig {a})"),
            F::Boxed(a) => write!(o, "(fboxed {a})"),
            F::Rc(a) => write!(o, "(frc {a})"),
            F::Arc(a) => write!(o, "(farc {a})"),
            F::Reenter(pk, k, a) => write!(o, "(freenter {pk} {k} {a})"),
        }
    }
}

fn tokenize(s: &str) -> Vec<String> {
    let mut out = vec![];
    let mut cur = String::new();
    for c in s.chars() {
        if c == '(' || c == ')' || c == ' ' || c == '\t' || c == '\r' || c == '\n' {
            if !cur.is_empty() {
                out.push(std::mem::take(&mut cur));
            }
            if c == '(' || c == ')' {
                out.push(c.to_string());
            }
        } else {
            cur.push(c);
        }
    }
    if !cur.is_empty() {
        out.push(cur);
    }
    out
}

struct P<'a> {
    t: &'a [String],
    i: usize,
}
impl<'a> P<'a> {
    fn next(&mut self) -> Option<&'a str> {
        let r = self.t.get(self.i)?;
        self.i += 1;
        Some(r.as_str())
    }
    fn expect(&mut self, s: &str) -> Option<()> {
        if self.next()? == s {
            Some(())
        } else {
            None
        }
    }
    fn num(&mut self) -> Option<u32> {
        num(self.next()?)
    }
    fn ok_err(&mut self) -> Option<bool> {
        match self.next()? {
            "ok" => Some(true),
            "err" => Some(false),
            _ => None,
        }
    }
    fn akind(&mut self) -> Option<AK> {
        match self.next()? {
            "pre" => Some(AK::Pre),
            "short" => Some(AK::Short),
            "post" => Some(AK::Post),
            _ => None,
        }
    }
    fn svc(&mut self) -> Option<S> {
        self.expect("(")?;
        let head = self.next()?;
        let r = match head {
            "leaf" => S::Leaf { id: self.num()?, cp: self.num()?, cok: self.ok_err()?, rp: self.num()?, rok: self.ok_err()? },
            "fn" => S::Fn { id: self.num()?, cok: self.ok_err()? },
            "map" => {
                let s = self.svc()?;
                S::Map(Box::new(s), self.num()?)
            }
            "maperr" => {
                let s = self.svc()?;
                S::MapErr(Box::new(s), self.num()?)
            }
            "then" => {
                let a = self.svc()?;
                let b = self.svc()?;
                S::Then(Box::new(a), Box::new(b))
            }
            "apply" => {
                let k = self.akind()?;
                let n = self.num()?;
                S::Apply(Box::new(self.svc()?), k, n)
            }
            "mw" => {
                let s = self.svc()?;
                S::Mw(Box::new(s), self.num()?)
            }
            "reenter" => {
                let wk = wkind(self.next()?)?;
                let k = self.num()?;
                S::Reenter(wk, k, Box::new(self.svc()?))
            }
            w => S::Wrap(wkind(w)?, Box::new(self.svc()?)),
        };
        self.expect(")")?;
        Some(r)
    }
    fn fac(&mut self) -> Option<F> {
        self.expect("(")?;
        let head = self.next()?;
        let r = match head {
            "fleaf" => {
                let id = self.num()?;
                let ip = self.num()?;
                let iok = self.ok_err()?;
                let use_cfg = match self.next()? {
                    "cfg" => true,
                    "nocfg" => false,
                    _ => return None,
                };
                F::Leaf { id, ip, iok, use_cfg, s: self.svc()? }
            }
            "ffn" => F::Fn { id: self.num()?, cok: self.ok_err()? },
            "fmap" => {
                let a = self.fac()?;
                F::Map(Box::new(a), self.num()?)
            }
            "fmaperr" => {
                let a = self.fac()?;
                F::MapErr(Box::new(a), self.num()?)
            }
            "fmapiniterr" => {
                let a = self.fac()?;
                F::MapInitErr(Box::new(a), self.num()?)
            }
            "fthen" => {
                let a = self.fac()?;
                let b = self.fac()?;
                F::Then(Box::new(a), Box::new(b))
            }
            "fapply" => {
                let k = self.akind()?;
                let n = self.num()?;
                F::Apply(Box::new(self.fac()?), k, n)
            }
            "transform" | "transformerr" => {
                let t = self.num()?;
                let tp = self.num()?;
                let tok = self.ok_err()?;
                let pk = match self.next()? {
                    "rc" => PK::Rc,
                    "plain" => PK::Plain,
                    "arc" => PK::Arc,
                    _ => return None,
                };
                let mie = if head == "transformerr" { Some(self.num()?) } else { None };
                F::Transform { t, tp, tok, pk, mie, a: Box::new(self.fac()?) }
            }
            "applycfg" => {
                let s = self.svc()?;
                F::ApplyCfg { s, f: self.num()?, ip: self.num()?, iok: self.ok_err()? }
            }
            "applycfgfac" => {
                let a = self.fac()?;
                F::ApplyCfgFac { a: Box::new(a), f: self.num()?, ip: self.num()?, iok: self.ok_err()? }
            }
            "mapconfig" => {
                let a = self.fac()?;
                F::MapConfig(Box::new(a), self.num()?)
            }
            "unitconfig" => F::UnitConfig(Box::new(self.fac()?)),
            "fboxed" => F::Boxed(Box::new(self.fac()?)),
            "frc" => F::Rc(Box::new(self.fac()?)),
            "farc" => F::Arc(Box::new(self.fac()?)),
            "freenter" => {
                let pk = match self.next()? {
                    "rc" => PK::Rc,
                    "arc" => PK::Arc,
                    _ => return None,
                };
                let k = self.num()?;
                F::Reenter(pk, k, Box::new(self.fac()?))
            }
            _ => return None,
        };
        self.expect(")")?;
        Some(r)
    }
}

fn wkind(w: &str) -> Option<WK> {
    Some(match w {
        "boxed" => WK::Boxed,
        "rcboxed" => WK::RcBoxed,
        "rc" => WK::Rc,
        "refcell" => WK::RefCell,
        "ref" => WK::Ref,
        "box" => WK::Box,
        "refmut" => WK::RefMut,
        _ => return None,
    })
}

fn num(s: &str) -> Option<u32> {
    if s.is_empty() || s.len() > 6 || !s.bytes().all(|b| b.is_ascii_digit()) {
        return None;
    }
    s.parse().ok()
}

fn svc_leaf_ids(s: &S, out: &mut Vec<u32>) {
    match s {
        S::Leaf { id, .. } => out.push(*id),
        S::Fn { .. } => {}
        S::Map(s, _) | S::MapErr(s, _) | S::Apply(s, _, _) | S::Wrap(_, s) | S::Mw(s, _) | S::Reenter(_, _, s) => svc_leaf_ids(s, out),
        S::Then(a, b) => {
            svc_leaf_ids(a, out);
            svc_leaf_ids(b, out)
        }
    }
}
fn fac_leaf_ids(f: &F, out: &mut Vec<u32>) {
    match f {
        F::Leaf { s, .. } | F::ApplyCfg { s, .. } => svc_leaf_ids(s, out),
        F::Fn { .. } => {}
        F::Map(a, _) | F::MapErr(a, _) | F::MapInitErr(a, _) | F::Apply(a, _, _) | F::MapConfig(a, _) => fac_leaf_ids(a, out),
        F::Transform { a, .. } | F::ApplyCfgFac { a, .. } => fac_leaf_ids(a, out),
        F::UnitConfig(a) | F::Boxed(a) | F::Rc(a) | F::Arc(a) | F::Reenter(_, _, a) => fac_leaf_ids(a, out),
        F::Then(a, b) => {
            fac_leaf_ids(a, out);
            fac_leaf_ids(b, out)
        }
    }
}
fn nodup(v: &[u32]) -> bool {
    let mut s = v.to_vec();
    s.sort_unstable();
    s.windows(2).all(|w| w[0] != w[1])
}

// ------------------------------------------------------------------------------------------------
// observable arithmetic (same as ActixNet.Service.mapFn … in the Lean model)
// ------------------------------------------------------------------------------------------------

fn mapfn(f: u32, v: u32) -> u32 {
    ((31 * v as u64 + f as u64 + 1) % 9973) as u32
}
fn leaf_val(id: u32, req: u32) -> u32 {
    ((17 * req as u64 + id as u64 + 5) % 9973) as u32
}
fn leaf_err(id: u32, req: u32) -> u32 {
    ((13 * req as u64 + id as u64 + 2) % 9973) as u32
}
fn rdy_err(id: u32) -> u32 {
    7000 + id
}
fn init_err(id: u32, cfg: u32) -> u32 {
    ((11 * cfg as u64 + id as u64 + 3) % 9973) as u32
}
fn leaf_res(id: u32, cok: bool, req: u32) -> Result<u32, u32> {
    if cok {
        Ok(leaf_val(id, req))
    } else {
        Err(leaf_err(id, req))
    }
}

// ------------------------------------------------------------------------------------------------
// event log, leaf registry, waker identities
// ------------------------------------------------------------------------------------------------

#[derive(Clone, Debug, PartialEq, Eq)]
enum Ev {
    Called(u32, u32),
    Polled(u32, usize, Option<Result<u32, u32>>),
    Mapped(char, u32, u32), // m / e / o / a / w / g / h / f : closure kind, id, argument
    Rdy(u32, usize, Option<Result<(), u32>>),
    New(u32, u32),
    IPolled(u32, usize, Option<Result<(), u32>>),
    NewTransform(u32),
}
impl fmt::Display for Ev {
    fn fmt(&self, o: &mut fmt::Formatter<'_>) -> fmt::Result {
        match self {
            Ev::Called(id, req) => write!(o, "c{id}:{req}"),
            Ev::Polled(id, w, None) => write!(o, "p{id}@{w}=-"),
            Ev::Polled(id, w, Some(Ok(v))) => write!(o, "p{id}@{w}=ok:{v}"),
            Ev::Polled(id, w, Some(Err(e))) => write!(o, "p{id}@{w}=err:{e}"),
            Ev::Mapped(c, f, v) => write!(o, "{c}{f}:{v}"),
            Ev::Rdy(id, w, None) => write!(o, "r{id}@{w}=-"),
            Ev::Rdy(id, w, Some(Ok(()))) => write!(o, "r{id}@{w}=ok"),
            Ev::Rdy(id, w, Some(Err(e))) => write!(o, "r{id}@{w}=err:{e}"),
            Ev::New(id, cfg) => write!(o, "n{id}:{cfg}"),
            Ev::IPolled(id, w, None) => write!(o, "i{id}@{w}=-"),
            Ev::IPolled(id, w, Some(Ok(()))) => write!(o, "i{id}@{w}=ok"),
            Ev::IPolled(id, w, Some(Err(e))) => write!(o, "i{id}@{w}=err:{e}"),
            Ev::NewTransform(t) => write!(o, "t{t}"),
        }
    }
}

thread_local! {
    static LOG: RefCell<Vec<Ev>> = const { RefCell::new(Vec::new()) };
    /// remaining `Pending` answers of every scripted leaf's `poll_ready`, by leaf id
    static REG: RefCell<HashMap<u32, (Rc<Cell<u32>>, Rc<Cell<bool>>)>> = RefCell::new(HashMap::new());
    /// set when a leaf / init future is polled after completion
    static REPOLL: Cell<bool> = const { Cell::new(false) };
}
fn log(e: Ev) {
    LOG.with(|l| l.borrow_mut().push(e));
}
fn take_log() -> Vec<Ev> {
    LOG.with(|l| std::mem::take(&mut *l.borrow_mut()))
}

thread_local! {
    /// wake-ups received per waker identity (index = identity)
    static WAKES: RefCell<Vec<u32>> = const { RefCell::new(Vec::new()) };
    /// the "reactor": wakers parked by scripted leaves that answered Pending
    static PARKED: RefCell<Vec<Waker>> = const { RefCell::new(Vec::new()) };
}
fn note_wake(p: *const ()) {
    let id = p as usize;
    WAKES.with(|w| {
        let mut w = w.borrow_mut();
        if id >= w.len() {
            w.resize(id + 1, 0);
        }
        w[id] += 1;
    })
}
fn wakes_of(id: usize) -> u32 {
    WAKES.with(|w| w.borrow().get(id).copied().unwrap_or(0))
}
/// a scripted leaf that answers Pending keeps a clone of the waker it was polled with
fn park(cx: &Context<'_>) {
    let w = cx.waker().clone();
    PARKED.with(|p| p.borrow_mut().push(w));
}
/// the awaited events happen: every parked waker is woken (and forgotten)
fn fire() {
    let v = PARKED.with(|p| std::mem::take(&mut *p.borrow_mut()));
    for w in v {
        w.wake();
    }
}
fn reset_reactor() {
    PARKED.with(|p| p.borrow_mut().clear());
}

/// the data pointer *is* the identity; wake-ups are counted per identity
static VTABLE: RawWakerVTable = RawWakerVTable::new(|p| RawWaker::new(p, &VTABLE), note_wake, note_wake, |_| {});
const FOREIGN_WAKER: usize = 999_999;

fn make_waker(id: usize) -> Waker {
    // the data pointer *is* the identity; it is never dereferenced
    unsafe { Waker::from_raw(RawWaker::new(id as *const (), &VTABLE)) }
}
/// identity of the waker a leaf is polled with (a waker not made by the executor shows as 999999)
fn waker_id(cx: &Context<'_>) -> usize {
    let w = cx.waker();
    if std::ptr::eq(w.vtable(), &VTABLE) {
        w.data() as usize
    } else {
        FOREIGN_WAKER
    }
}

// ------------------------------------------------------------------------------------------------
// scripted leaves
// ------------------------------------------------------------------------------------------------

type BS = boxed::BoxService<u32, u32, u32>;
type BF = boxed::BoxServiceFactory<u32, u32, u32, u32, u32>;
type BFut<T> = Pin<Box<dyn Future<Output = T>>>;

struct LeafFut {
    id: u32,
    pend: u32,
    res: Result<u32, u32>,
    fin: bool,
}
impl Future for LeafFut {
    type Output = Result<u32, u32>;
    fn poll(mut self: Pin<&mut Self>, cx: &mut Context<'_>) -> Poll<Self::Output> {
        let w = waker_id(cx);
        if self.fin {
            REPOLL.with(|r| r.set(true));
            panic!("leaf future {} polled after completion", self.id);
        }
        if self.pend > 0 {
            self.pend -= 1;
            log(Ev::Polled(self.id, w, None));
            park(cx);
            Poll::Pending
        } else {
            self.fin = true;
            log(Ev::Polled(self.id, w, Some(self.res)));
            Poll::Ready(self.res)
        }
    }
}

struct LeafSvc {
    id: u32,
    cp: u32,
    cok: bool,
    rok: Rc<Cell<bool>>,
    rp: Rc<Cell<u32>>,
}
impl Service<u32> for LeafSvc {
    type Response = u32;
    type Error = u32;
    type Future = LeafFut;
    fn poll_ready(&self, cx: &mut Context<'_>) -> Poll<Result<(), u32>> {
        let w = waker_id(cx);
        if self.rp.get() > 0 {
            self.rp.set(self.rp.get() - 1);
            log(Ev::Rdy(self.id, w, None));
            park(cx);
            Poll::Pending
        } else if self.rok.get() {
            log(Ev::Rdy(self.id, w, Some(Ok(()))));
            Poll::Ready(Ok(()))
        } else {
            log(Ev::Rdy(self.id, w, Some(Err(rdy_err(self.id)))));
            Poll::Ready(Err(rdy_err(self.id)))
        }
    }
    fn call(&self, req: u32) -> LeafFut {
        log(Ev::Called(self.id, req));
        LeafFut { id: self.id, pend: self.cp, res: leaf_res(self.id, self.cok, req), fin: false }
    }
}

/// user middleware: forwards readiness, logs the call, maps an Ok response
struct Mw<Sv> {
    inner: Sv,
    t: u32,
}
impl<Sv> Service<u32> for Mw<Sv>
where
    Sv: Service<u32, Response = u32, Error = u32>,
    Sv::Future: 'static,
{
    type Response = u32;
    type Error = u32;
    type Future = BFut<Result<u32, u32>>;
    fn poll_ready(&self, cx: &mut Context<'_>) -> Poll<Result<(), u32>> {
        self.inner.poll_ready(cx)
    }
    fn call(&self, req: u32) -> Self::Future {
        log(Ev::Mapped('w', self.t, req));
        let fut = self.inner.call(req);
        let t = self.t;
        Box::pin(async move {
            let v = fut.await?;
            log(Ev::Mapped('o', t, v));
            Ok(mapfn(t, v))
        })
    }
}

type DynS = dyn Service<u32, Response = u32, Error = u32, Future = BFut<Result<u32, u32>>>;

/// User service that re-enters *the wrapper it sits behind* while its own `call` / `poll_ready` is on
/// the stack (`me` is a handle on the wrapped service): `call(req)` with odd `req` delegates
/// `req - 1` to the wrapper, which comes back here and goes on to `inner`; `poll_ready` polls the
/// wrapper once more, which comes back here and polls `inner`.
struct Shim {
    inner: BS,
    k: u32,
    me: Rc<RefCell<Option<std::rc::Weak<DynS>>>>,
    in_ready: Cell<bool>,
}
impl Shim {
    fn wrapper(&self) -> Rc<DynS> {
        self.me.borrow().as_ref().and_then(|w| w.upgrade()).expect("wrapper alive")
    }
}
impl Service<u32> for Shim {
    type Response = u32;
    type Error = u32;
    type Future = BFut<Result<u32, u32>>;
    fn poll_ready(&self, cx: &mut Context<'_>) -> Poll<Result<(), u32>> {
        if self.in_ready.get() {
            self.inner.poll_ready(cx)
        } else {
            self.in_ready.set(true);
            let me = self.wrapper();
            let r = catch(|| me.poll_ready(cx));
            self.in_ready.set(false);
            match r {
                Ok(r) => r,
                Err(m) => panic!("{m}"),
            }
        }
    }
    fn call(&self, req: u32) -> Self::Future {
        log(Ev::Mapped('x', self.k, req));
        if req % 2 == 1 {
            self.wrapper().call(req - 1)
        } else {
            self.inner.call(req)
        }
    }
}

type FFut = <BF as ServiceFactory<u32>>::Future;
/// the same for factories behind `Rc` / `Arc`: `new_service(cfg)` with odd `cfg` asks the same
/// `Rc` / `Arc` again with `cfg - 1`
struct ShimF {
    inner: BF,
    k: u32,
    me: Rc<RefCell<Option<Box<dyn Fn(u32) -> FFut>>>>,
}
impl ServiceFactory<u32> for ShimF {
    type Response = u32;
    type Error = u32;
    type Config = u32;
    type Service = BS;
    type InitError = u32;
    type Future = FFut;
    fn new_service(&self, cfg: u32) -> FFut {
        log(Ev::Mapped('z', self.k, cfg));
        if cfg % 2 == 1 {
            (self.me.borrow().as_ref().expect("wrapper alive"))(cfg - 1)
        } else {
            self.inner.new_service(cfg)
        }
    }
}

/// something the harness can keep a shared borrow of
trait HeldCell {
    fn hold<'a>(&'a self) -> Box<dyn Guard + 'a>;
}
trait Guard {}
impl<T> Guard for std::cell::Ref<'_, T> {}
impl<T> HeldCell for RefCell<T> {
    fn hold<'a>(&'a self) -> Box<dyn Guard + 'a> {
        Box::new(self.borrow())
    }
}
thread_local! {
    /// the `RefCell` wrappers inside the current service: on every other op the harness keeps a `Ref`
    /// of each alive across the whole `poll_ready` / `call` + drive
    static CELLS: RefCell<Vec<Rc<dyn HeldCell>>> = const { RefCell::new(Vec::new()) };
}
fn register_cell(c: Rc<dyn HeldCell>) {
    CELLS.with(|v| v.borrow_mut().push(c));
}

/// scripted init future (leaf factories, transforms, apply_cfg closures)
struct InitFut<T> {
    id: u32,
    pend: u32,
    fin: bool,
    make: Option<Box<dyn FnOnce() -> Result<T, u32>>>,
}
impl<T> InitFut<T> {
    fn new(id: u32, pend: u32, make: impl FnOnce() -> Result<T, u32> + 'static) -> Self {
        InitFut { id, pend, fin: false, make: Some(Box::new(make)) }
    }
}
impl<T> Unpin for InitFut<T> {}
impl<T> Future for InitFut<T> {
    type Output = Result<T, u32>;
    fn poll(mut self: Pin<&mut Self>, cx: &mut Context<'_>) -> Poll<Self::Output> {
        let w = waker_id(cx);
        if self.fin {
            REPOLL.with(|r| r.set(true));
            panic!("init future {} polled after completion", self.id);
        }
        if self.pend > 0 {
            self.pend -= 1;
            log(Ev::IPolled(self.id, w, None));
            park(cx);
            Poll::Pending
        } else {
            self.fin = true;
            let r = (self.make.take().unwrap())();
            log(Ev::IPolled(self.id, w, Some(r.as_ref().map(|_| ()).map_err(|e| *e))));
            Poll::Ready(r)
        }
    }
}

struct ScriptedT {
    t: u32,
    tp: u32,
    tok: bool,
}
impl Transform<BS, u32> for ScriptedT {
    type Response = u32;
    type Error = u32;
    type Transform = Mw<BS>;
    type InitError = u32;
    type Future = InitFut<Mw<BS>>;
    fn new_transform(&self, service: BS) -> Self::Future {
        log(Ev::NewTransform(self.t));
        let (t, tok) = (self.t, self.tok);
        InitFut::new(t, self.tp, move || if tok { Ok(Mw { inner: service, t }) } else { Err(init_err(t, 0)) })
    }
}

/// the blanket impl of `TransformExt` in the crate only covers `T: Transform<T, Req>`; the trait is
/// public and all its methods are provided, so a user implements it for the service type at hand
impl TransformExt<BS, u32> for ScriptedT {}

/// `Config = ()` view of a factory (needed by `unit_config`)
struct Unit0(BF);
impl ServiceFactory<u32> for Unit0 {
    type Response = u32;
    type Error = u32;
    type Config = ();
    type Service = BS;
    type InitError = u32;
    type Future = <BF as ServiceFactory<u32>>::Future;
    fn new_service(&self, _: ()) -> Self::Future {
        self.0.new_service(0)
    }
}
/// `Config = ()` view producing a clonable service (needed by `apply_cfg_factory`, whose closure only
/// gets a reference to the service)
struct RcUnit(BF);
impl ServiceFactory<u32> for RcUnit {
    type Response = u32;
    type Error = u32;
    type Config = ();
    type Service = Rc<BS>;
    type InitError = u32;
    type Future = BFut<Result<Rc<BS>, u32>>;
    fn new_service(&self, _: ()) -> Self::Future {
        let f = self.0.new_service(0);
        Box::pin(async move { f.await.map(Rc::new) })
    }
}

// ------------------------------------------------------------------------------------------------
// building the REAL combinators from the AST
// ------------------------------------------------------------------------------------------------

fn wrap_closure(kind: AK, k: u32) -> impl Fn(u32, &BS) -> BFut<Result<u32, u32>> + Clone {
    move |req: u32, svc: &BS| -> BFut<Result<u32, u32>> {
        log(Ev::Mapped('a', k, req));
        match kind {
            AK::Pre => svc.call(mapfn(k, req)),
            AK::Short => Box::pin(LeafFut { id: k, pend: 0, res: Err(mapfn(k, req)), fin: false }),
            AK::Post => {
                let fut = svc.call(req);
                Box::pin(async move {
                    let v = fut.await?;
                    log(Ev::Mapped('o', k, v));
                    Ok(mapfn(k, v))
                })
            }
        }
    }
}

fn build_svc(s: &S) -> BS {
    match s {
        S::Leaf { id, cp, cok, rp, rok } => {
            let cell = Rc::new(Cell::new(*rp));
            let okc = Rc::new(Cell::new(*rok));
            REG.with(|r| r.borrow_mut().insert(*id, (cell.clone(), okc.clone())));
            boxed::service(LeafSvc { id: *id, cp: *cp, cok: *cok, rok: okc, rp: cell })
        }
        S::Fn { id, cok } => {
            let (id, cok) = (*id, *cok);
            boxed::service(fn_service::<_, _, u32, u32, u32, ()>(move |req: u32| {
                log(Ev::Called(id, req));
                LeafFut { id, pend: 0, res: leaf_res(id, cok, req), fin: false }
            }))
        }
        S::Map(s, f) => {
            let f = *f;
            boxed::service(build_svc(s).map(move |v: u32| {
                log(Ev::Mapped('m', f, v));
                mapfn(f, v)
            }))
        }
        S::MapErr(s, f) => {
            let f = *f;
            boxed::service(build_svc(s).map_err(move |e: u32| {
                log(Ev::Mapped('e', f, e));
                mapfn(f, e)
            }))
        }
        // a closure as second stage goes through `IntoService for F: Fn(Req) -> Fut` (FnService);
        // a closure as first stage through `into_service`
        S::Then(a, b) => match (&**a, &**b) {
            (_, S::Fn { id, cok }) => {
                let (id, cok) = (*id, *cok);
                boxed::service(build_svc(a).and_then(move |req: u32| {
                    log(Ev::Called(id, req));
                    LeafFut { id, pend: 0, res: leaf_res(id, cok, req), fin: false }
                }))
            }
            (S::Fn { id, cok }, _) => {
                let (id, cok) = (*id, *cok);
                let first = into_service(move |req: u32| {
                    log(Ev::Called(id, req));
                    LeafFut { id, pend: 0, res: leaf_res(id, cok, req), fin: false }
                });
                boxed::service(first.and_then(build_svc(b)))
            }
            _ => boxed::service(build_svc(a).and_then(build_svc(b))),
        },
        S::Apply(s, kind, k) => boxed::service(apply_fn(build_svc(s), wrap_closure(*kind, *k))),
        S::Wrap(w, s) => {
            let inner = build_svc(s);
            match w {
                WK::Boxed => boxed::service(inner),
                WK::RcBoxed => boxed::service(boxed::rc_service(inner)),
                WK::Rc => boxed::service(Rc::new(inner)),
                WK::RefCell => {
                    let c = Rc::new(RefCell::new(inner));
                    register_cell(c.clone());
                    boxed::service(c)
                }
                WK::Ref => {
                    let leaked: &'static BS = Box::leak(Box::new(inner));
                    boxed::service(leaked)
                }
                WK::Box => boxed::service(Box::new(inner)),
                WK::RefMut => {
                    let leaked: &'static mut BS = Box::leak(Box::new(inner));
                    boxed::service(leaked)
                }
            }
        }
        S::Mw(s, t) => boxed::service(Mw { inner: build_svc(s), t: *t }),
        S::Reenter(w, k, s) => {
            let slot = Rc::new(RefCell::new(None));
            let shim = Shim { inner: build_svc(s), k: *k, me: slot.clone(), in_ready: Cell::new(false) };
            let h: Rc<DynS> = match w {
                WK::Boxed => boxed::rc_service(boxed::service(shim)),
                WK::RcBoxed => boxed::rc_service(boxed::rc_service(shim)),
                WK::Rc => boxed::rc_service(Rc::new(shim)),
                WK::RefCell => {
                    let c = Rc::new(RefCell::new(shim));
                    register_cell(c.clone());
                    boxed::rc_service(c)
                }
                WK::Ref => {
                    let leaked: &'static Shim = Box::leak(Box::new(shim));
                    boxed::rc_service(leaked)
                }
                WK::Box => boxed::rc_service(Box::new(shim)),
                WK::RefMut => {
                    let leaked: &'static mut Shim = Box::leak(Box::new(shim));
                    boxed::rc_service(leaked)
                }
            };
            *slot.borrow_mut() = Some(Rc::downgrade(&h));
            boxed::service(h)
        }
    }
}

/// the `fn_factory` closure of a leaf factory that ignores its config
fn nocfg_leaf(f: &F) -> Option<impl Fn() -> InitFut<BS> + Clone> {
    match f {
        F::Leaf { id, ip, iok, use_cfg: false, s } => {
            let (id, ip, iok) = (*id, *ip, *iok);
            let s = s.clone();
            Some(move || {
                log(Ev::New(id, 0));
                let s = s.clone();
                InitFut::new(id, ip, move || if iok { Ok(build_svc(&s)) } else { Err(init_err(id, 0)) })
            })
        }
        _ => None,
    }
}

fn build_fac(f: &F) -> BF {
    match f {
        F::Leaf { id, ip, iok, use_cfg, s } => {
            let (id, ip, iok) = (*id, *ip, *iok);
            let s = s.clone();
            if *use_cfg {
                boxed::factory(fn_factory_with_config(move |cfg: u32| {
                    log(Ev::New(id, cfg));
                    let s = s.clone();
                    InitFut::new(id, ip, move || if iok { Ok(build_svc(&s)) } else { Err(init_err(id, cfg)) })
                }))
            } else {
                boxed::factory(fn_factory::<_, u32, BS, u32, _, u32>(move || {
                    log(Ev::New(id, 0));
                    let s = s.clone();
                    InitFut::new(id, ip, move || if iok { Ok(build_svc(&s)) } else { Err(init_err(id, 0)) })
                }))
            }
        }
        F::Fn { id, cok } => {
            let (id, cok) = (*id, *cok);
            boxed::factory(
                fn_service::<_, _, u32, u32, u32, u32>(move |req: u32| {
                    log(Ev::Called(id, req));
                    LeafFut { id, pend: 0, res: leaf_res(id, cok, req), fin: false }
                })
                .map_init_err(|_: ()| 0u32),
            )
        }
        F::Map(a, f) => {
            let f = *f;
            boxed::factory(build_fac(a).map(move |v: u32| {
                log(Ev::Mapped('m', f, v));
                mapfn(f, v)
            }))
        }
        F::MapErr(a, f) => {
            let f = *f;
            boxed::factory(build_fac(a).map_err(move |e: u32| {
                log(Ev::Mapped('e', f, e));
                mapfn(f, e)
            }))
        }
        F::MapInitErr(a, f) => {
            let f = *f;
            boxed::factory(build_fac(a).map_init_err(move |e: u32| {
                log(Ev::Mapped('h', f, e));
                mapfn(f, e)
            }))
        }
        // a `fn_factory`-style closure (leaf that ignores the config) handed over directly goes through
        // `IntoServiceFactory for F: Fn() -> Fut` (FnServiceNoConfig)
        F::Then(a, b) => match nocfg_leaf(b) {
            Some(c) => boxed::factory(build_fac(a).and_then(c)),
            None => boxed::factory(build_fac(a).and_then(build_fac(b))),
        },
        F::Apply(a, kind, k) => match nocfg_leaf(a) {
            Some(c) => boxed::factory(apply_fn_factory(c, wrap_closure(*kind, *k))),
            None => boxed::factory(apply_fn_factory(build_fac(a), wrap_closure(*kind, *k))),
        },
        F::Transform { t, tp, tok, pk, mie, a } => {
            let tr = ScriptedT { t: *t, tp: *tp, tok: *tok };
            let inner = build_fac(a);
            match (mie, pk) {
                (None, PK::Plain) => match nocfg_leaf(a) {
                    Some(c) => boxed::factory(apply(tr, c)),
                    None => boxed::factory(apply(tr, inner)),
                },
                (None, PK::Rc) => boxed::factory(apply(Rc::new(tr), inner)),
                (None, PK::Arc) => boxed::factory(apply(Arc::new(tr), inner)),
                (Some(m), pk) => {
                    let m = *m;
                    let tr = tr.map_init_err(move |e: u32| {
                        log(Ev::Mapped('h', m, e));
                        mapfn(m, e)
                    });
                    match pk {
                        PK::Plain => boxed::factory(apply(tr, inner)),
                        PK::Rc => boxed::factory(apply(Rc::new(tr), inner)),
                        PK::Arc => boxed::factory(apply(Arc::new(tr), inner)),
                    }
                }
            }
        }
        F::ApplyCfg { s, f, ip, iok } => {
            let (f, ip, iok) = (*f, *ip, *iok);
            let srv: Rc<BS> = Rc::new(build_svc(s));
            boxed::factory(apply_cfg(srv, move |cfg: u32, srv: &Rc<BS>| {
                log(Ev::Mapped('f', f, cfg));
                let inner = srv.clone();
                InitFut::new(f, ip, move || if iok { Ok(Mw { inner, t: mapfn(f, cfg) }) } else { Err(init_err(f, cfg)) })
            }))
        }
        F::ApplyCfgFac { a, f, ip, iok } => {
            let (f, ip, iok) = (*f, *ip, *iok);
            boxed::factory(apply_cfg_factory(RcUnit(build_fac(a)), move |cfg: u32, srv: &Rc<BS>| {
                log(Ev::Mapped('f', f, cfg));
                let inner = srv.clone();
                InitFut::new(f, ip, move || if iok { Ok(Mw { inner, t: mapfn(f, cfg) }) } else { Err(init_err(f, cfg)) })
            }))
        }
        F::MapConfig(a, f) => {
            let f = *f;
            let g = move |c: u32| {
                log(Ev::Mapped('g', f, c));
                mapfn(f, c)
            };
            match nocfg_leaf(a) {
                Some(c) => boxed::factory(map_config::<_, _, u32, _, u32>(c, g)),
                None => boxed::factory(map_config(build_fac(a), g)),
            }
        }
        F::UnitConfig(a) => match nocfg_leaf(a) {
            Some(c) => boxed::factory(unit_config::<_, _, u32, u32>(c)),
            None => boxed::factory(unit_config::<_, _, u32, u32>(Unit0(build_fac(a)))),
        },
        F::Boxed(a) => boxed::factory(build_fac(a)),
        F::Rc(a) => boxed::factory(Rc::new(build_fac(a))),
        F::Arc(a) => boxed::factory(Arc::new(build_fac(a))),
        F::Reenter(pk, k, a) => {
            let slot: Rc<RefCell<Option<Box<dyn Fn(u32) -> FFut>>>> = Rc::new(RefCell::new(None));
            let shim = boxed::factory(ShimF { inner: build_fac(a), k: *k, me: slot.clone() });
            if *pk == PK::Arc {
                #[allow(clippy::arc_with_non_send_sync)]
                let h = Arc::new(shim);
                let weak = Arc::downgrade(&h);
                *slot.borrow_mut() = Some(Box::new(move |c| {
                    let h = weak.upgrade().expect("wrapper alive");
                    <Arc<BF> as ServiceFactory<u32>>::new_service(&h, c)
                }));
                boxed::factory(h)
            } else {
                let h = Rc::new(shim);
                let weak = Rc::downgrade(&h);
                *slot.borrow_mut() = Some(Box::new(move |c| {
                    let h = weak.upgrade().expect("wrapper alive");
                    <Rc<BF> as ServiceFactory<u32>>::new_service(&h, c)
                }));
                boxed::factory(h)
            }
        }
    }
}

// ------------------------------------------------------------------------------------------------
// reference interpreter (straight from the property text; independent of the Lean model)
// ------------------------------------------------------------------------------------------------

/// expected leaf executions (call, completion) and closure applications of `call(req)`, in order
fn ref_call(s: &S, req: u32, out: &mut Vec<Ev>) -> Result<u32, u32> {
    match s {
        S::Leaf { id, cok, .. } | S::Fn { id, cok } => {
            let r = leaf_res(*id, *cok, req);
            out.push(Ev::Called(*id, req));
            out.push(Ev::Polled(*id, 0, Some(r)));
            r
        }
        S::Map(s, f) => ref_call(s, req, out).map(|v| {
            out.push(Ev::Mapped('m', *f, v));
            mapfn(*f, v)
        }),
        S::MapErr(s, f) => ref_call(s, req, out).map_err(|e| {
            out.push(Ev::Mapped('e', *f, e));
            mapfn(*f, e)
        }),
        S::Then(a, b) => {
            let v = ref_call(a, req, out)?;
            ref_call(b, v, out)
        }
        S::Apply(s, kind, k) => {
            out.push(Ev::Mapped('a', *k, req));
            match kind {
                AK::Pre => ref_call(s, mapfn(*k, req), out),
                AK::Short => {
                    let r = Err(mapfn(*k, req));
                    out.push(Ev::Polled(*k, 0, Some(r)));
                    r
                }
                AK::Post => ref_call(s, req, out).map(|v| {
                    out.push(Ev::Mapped('o', *k, v));
                    mapfn(*k, v)
                }),
            }
        }
        S::Wrap(_, s) => ref_call(s, req, out),
        // transparent wrappers: the shim is entered with `req`, an odd `req` re-enters the wrapper
        // with `req - 1`, then the inner service answers as if there were no wrapper
        S::Reenter(_, k, s) => {
            out.push(Ev::Mapped('x', *k, req));
            if req % 2 == 1 {
                out.push(Ev::Mapped('x', *k, req - 1));
            }
            ref_call(s, re_req(req), out)
        }
        S::Mw(s, t) => {
            out.push(Ev::Mapped('w', *t, req));
            ref_call(s, req, out).map(|v| {
                out.push(Ev::Mapped('o', *t, v));
                mapfn(*t, v)
            })
        }
    }
}

/// number of leading events of `ref_call(s, req)` that happen synchronously inside `call(req)`, before
/// the returned future is polled for the first time: `call` invokes the first stage (and every
/// closure / shim on the way to it) at once, in call order
fn sync_len(s: &S, req: u32) -> usize {
    match s {
        S::Leaf { .. } | S::Fn { .. } => 1,
        S::Map(x, _) | S::MapErr(x, _) | S::Wrap(_, x) => sync_len(x, req),
        S::Then(a, _) => sync_len(a, req),
        S::Apply(x, AK::Pre, k) => 1 + sync_len(x, mapfn(*k, req)),
        S::Apply(_, AK::Short, _) => 1,
        S::Apply(x, AK::Post, _) => 1 + sync_len(x, req),
        S::Mw(x, _) => 1 + sync_len(x, req),
        S::Reenter(_, _, x) => 1 + (req % 2) as usize + sync_len(x, re_req(req)),
    }
}
/// the events that happen synchronously inside `new_service(cfg)`, in order: every inner factory is
/// asked at once (pipeline order), config mappers and the `apply_cfg` closure run at once
fn fac_sync(f: &F, cfg: u32, out: &mut Vec<Ev>) {
    match f {
        F::Leaf { id, use_cfg, .. } => out.push(Ev::New(*id, if *use_cfg { cfg } else { 0 })),
        F::Fn { .. } => {}
        F::Map(a, _) | F::MapErr(a, _) | F::MapInitErr(a, _) | F::Apply(a, _, _) | F::Boxed(a) | F::Rc(a) | F::Arc(a) => fac_sync(a, cfg, out),
        F::Transform { a, .. } => fac_sync(a, cfg, out),
        F::Then(a, b) => {
            fac_sync(a, cfg, out);
            fac_sync(b, cfg, out)
        }
        F::ApplyCfg { f, .. } => out.push(Ev::Mapped('f', *f, cfg)),
        F::ApplyCfgFac { a, .. } => fac_sync(a, 0, out),
        F::MapConfig(a, m) => {
            out.push(Ev::Mapped('g', *m, cfg));
            fac_sync(a, mapfn(*m, cfg), out)
        }
        F::UnitConfig(a) => fac_sync(a, 0, out),
        F::Reenter(_, k, a) => {
            out.push(Ev::Mapped('z', *k, cfg));
            if cfg % 2 == 1 {
                out.push(Ev::Mapped('z', *k, cfg - 1));
            }
            fac_sync(a, re_req(cfg), out)
        }
    }
}

fn re_req(v: u32) -> u32 {
    v - v % 2
}

fn leaves<'a>(s: &'a S, out: &mut Vec<&'a S>) {
    match s {
        S::Leaf { .. } => out.push(s),
        S::Fn { .. } => {}
        S::Map(s, _) | S::MapErr(s, _) | S::Apply(s, _, _) | S::Wrap(_, s) | S::Mw(s, _) | S::Reenter(_, _, s) => leaves(s, out),
        S::Then(a, b) => {
            leaves(a, out);
            leaves(b, out)
        }
    }
}
fn leaves_mut(s: &mut S, f: &mut dyn FnMut(u32, &mut u32)) {
    match s {
        S::Leaf { id, rp, .. } => f(*id, rp),
        S::Fn { .. } => {}
        S::Map(s, _) | S::MapErr(s, _) | S::Apply(s, _, _) | S::Wrap(_, s) | S::Mw(s, _) | S::Reenter(_, _, s) => leaves_mut(s, f),
        S::Then(a, b) => {
            leaves_mut(a, f);
            leaves_mut(b, f)
        }
    }
}
/// copy the live readiness countdowns of the real leaves into the AST
fn sync_ast(s: &mut S) {
    REG.with(|r| {
        let r = r.borrow();
        leaves_mut(s, &mut |id, rp| {
            if let Some(c) = r.get(&id) {
                *rp = c.0.get()
            }
        })
    })
}
/// leaf `i` starts a new readiness round (AST side)
fn rescript_ast(s: &mut S, i: u32, nrp: u32, nrok: bool) {
    match s {
        S::Leaf { id, rp, rok, .. } => {
            if *id == i {
                *rp = nrp;
                *rok = nrok;
            }
        }
        S::Fn { .. } => {}
        S::Map(s, _) | S::MapErr(s, _) | S::Apply(s, _, _) | S::Wrap(_, s) | S::Mw(s, _) | S::Reenter(_, _, s) => rescript_ast(s, i, nrp, nrok),
        S::Then(a, b) => {
            rescript_ast(a, i, nrp, nrok);
            rescript_ast(b, i, nrp, nrok)
        }
    }
}

/// what `poll_ready` must answer now: ready iff every inner service is ready, an inner error
/// (mapped by the enclosing map_err) instead of ready, else pending.  `None` = Pending.
/// `evs` receives the applications of `map_err` closures to the readiness error.
fn ref_ready_ev(s: &S, evs: &mut Vec<Ev>) -> Option<Result<(), u32>> {
    match s {
        S::Leaf { id, rp, rok, .. } => {
            if *rp > 0 {
                None
            } else if *rok {
                Some(Ok(()))
            } else {
                Some(Err(rdy_err(*id)))
            }
        }
        S::Fn { .. } => Some(Ok(())),
        S::MapErr(s, f) => match ref_ready_ev(s, evs) {
            Some(Err(e)) => {
                evs.push(Ev::Mapped('e', *f, e));
                Some(Err(mapfn(*f, e)))
            }
            r => r,
        },
        S::Map(s, _) | S::Apply(s, _, _) | S::Wrap(_, s) | S::Mw(s, _) | S::Reenter(_, _, s) => ref_ready_ev(s, evs),
        S::Then(a, b) => {
            let ra = ref_ready_ev(a, evs);
            if let Some(Err(e)) = ra {
                return Some(Err(e));
            }
            let rb = ref_ready_ev(b, evs);
            if let Some(Err(e)) = rb {
                return Some(Err(e));
            }
            if ra.is_some() && rb.is_some() {
                Some(Ok(()))
            } else {
                None
            }
        }
    }
}
fn ref_ready(s: &S) -> Option<Result<(), u32>> {
    ref_ready_ev(s, &mut vec![])
}

/// rounds of "every pending inner service is polled once" until readiness is decided
fn ref_ready_rounds(s: &mut S, evs: &mut Vec<Ev>) -> (u32, Result<(), u32>) {
    let mut t = 0;
    loop {
        let mut e = vec![];
        if let Some(r) = ref_ready_ev(s, &mut e) {
            evs.extend(e);
            return (t, r);
        }
        leaves_mut(s, &mut |_, rp| *rp = rp.saturating_sub(1));
        t += 1;
    }
}

struct FacRef {
    pend: u32,
    res: Result<S, u32>,
}
/// the readiness gate of one `apply_cfg_factory` node (state B): what the reference expects
struct Gate {
    f: u32,
    cfg: u32,
    leaf_ids: Vec<u32>,
    /// Pending rounds before the verdict, and the verdict (only if the inner factory succeeds)
    expect: Option<(u32, Result<(), u32>)>,
}
#[derive(Default)]
struct FacTrace {
    /// which leaf factories are asked for a service, with which config
    news: Vec<(u32, u32)>,
    /// every non-Pending, non-readiness event of a complete run of every node (waker 0)
    evs: Vec<Ev>,
    gates: Vec<Gate>,
    /// closure ids of apply_cfg / apply_cfg_factory nodes
    cfg_fn_ids: Vec<u32>,
    joins: u32,
}
/// reference for `new_service(cfg)`: number of Pending polls, result, and the expected trace
fn ref_fac(f: &F, cfg: u32, tr: &mut FacTrace) -> FacRef {
    match f {
        F::Leaf { id, ip, iok, use_cfg, s } => {
            let c = if *use_cfg { cfg } else { 0 };
            tr.news.push((*id, c));
            tr.evs.push(Ev::New(*id, c));
            let res = if *iok { Ok(s.clone()) } else { Err(init_err(*id, c)) };
            tr.evs.push(Ev::IPolled(*id, 0, Some(res.as_ref().map(|_| ()).map_err(|e| *e))));
            FacRef { pend: *ip, res }
        }
        F::Fn { id, cok } => FacRef { pend: 0, res: Ok(S::Fn { id: *id, cok: *cok }) },
        F::Map(a, m) => {
            let r = ref_fac(a, cfg, tr);
            FacRef { pend: r.pend, res: r.res.map(|s| S::Map(Box::new(s), *m)) }
        }
        F::MapErr(a, m) => {
            let r = ref_fac(a, cfg, tr);
            FacRef { pend: r.pend, res: r.res.map(|s| S::MapErr(Box::new(s), *m)) }
        }
        F::MapInitErr(a, m) => {
            let r = ref_fac(a, cfg, tr);
            if let Err(e) = &r.res {
                tr.evs.push(Ev::Mapped('h', *m, *e));
            }
            FacRef { pend: r.pend, res: r.res.map_err(|e| mapfn(*m, e)) }
        }
        F::Then(a, b) => {
            tr.joins += 1;
            let ra = ref_fac(a, cfg, tr);
            let rb = ref_fac(b, cfg, tr);
            match (ra.res, rb.res) {
                // the error of the factory that fails at the earliest poll; ties go to the left
                (Err(ea), Err(eb)) => {
                    if ra.pend <= rb.pend {
                        FacRef { pend: ra.pend, res: Err(ea) }
                    } else {
                        FacRef { pend: rb.pend, res: Err(eb) }
                    }
                }
                (Err(ea), Ok(_)) => FacRef { pend: ra.pend, res: Err(ea) },
                (Ok(_), Err(eb)) => FacRef { pend: rb.pend, res: Err(eb) },
                (Ok(sa), Ok(sb)) => FacRef { pend: ra.pend.max(rb.pend), res: Ok(S::Then(Box::new(sa), Box::new(sb))) },
            }
        }
        F::Apply(a, kind, k) => {
            let r = ref_fac(a, cfg, tr);
            FacRef { pend: r.pend, res: r.res.map(|s| S::Apply(Box::new(s), *kind, *k)) }
        }
        F::Transform { t, tp, tok, mie, a, .. } => {
            let r = ref_fac(a, cfg, tr);
            match r.res {
                Err(e) => FacRef { pend: r.pend, res: Err(e) },
                Ok(s) => {
                    tr.evs.push(Ev::NewTransform(*t));
                    let res = if *tok { Ok(S::Mw(Box::new(s), *t)) } else { Err(init_err(*t, 0)) };
                    tr.evs.push(Ev::IPolled(*t, 0, Some(res.as_ref().map(|_| ()).map_err(|e| *e))));
                    let res = match (res, mie) {
                        (Err(e), Some(m)) => {
                            tr.evs.push(Ev::Mapped('h', *m, e));
                            Err(mapfn(*m, e))
                        }
                        (r, _) => r,
                    };
                    FacRef { pend: r.pend + tp, res }
                }
            }
        }
        F::ApplyCfg { s, f, ip, iok } => {
            tr.cfg_fn_ids.push(*f);
            tr.evs.push(Ev::Mapped('f', *f, cfg));
            let res = if *iok { Ok(S::Mw(Box::new(S::Wrap(WK::Rc, Box::new(s.clone()))), mapfn(*f, cfg))) } else { Err(init_err(*f, cfg)) };
            tr.evs.push(Ev::IPolled(*f, 0, Some(res.as_ref().map(|_| ()).map_err(|e| *e))));
            FacRef { pend: *ip, res }
        }
        F::ApplyCfgFac { a, f, ip, iok } => {
            tr.cfg_fn_ids.push(*f);
            let r = ref_fac(a, 0, tr);
            let mut leaf_ids = vec![];
            fac_leaf_ids(a, &mut leaf_ids);
            let gi = tr.gates.len();
            tr.gates.push(Gate { f: *f, cfg, leaf_ids, expect: None });
            match r.res {
                Err(e) => FacRef { pend: r.pend, res: Err(e) },
                Ok(mut s) => {
                    // only the leaves of the service that was actually built are asked for readiness
                    let mut ids = vec![];
                    svc_leaf_ids(&s, &mut ids);
                    tr.gates[gi].leaf_ids = ids;
                    let (t, verdict) = ref_ready_rounds(&mut s, &mut tr.evs);
                    tr.gates[gi].expect = Some((t, verdict));
                    match verdict {
                        Err(e) => FacRef { pend: r.pend + t, res: Err(e) },
                        Ok(()) => {
                            tr.evs.push(Ev::Mapped('f', *f, cfg));
                            let res = if *iok { Ok(S::Mw(Box::new(S::Wrap(WK::Rc, Box::new(s))), mapfn(*f, cfg))) } else { Err(init_err(*f, cfg)) };
                            tr.evs.push(Ev::IPolled(*f, 0, Some(res.as_ref().map(|_| ()).map_err(|e| *e))));
                            FacRef { pend: r.pend + t + ip, res }
                        }
                    }
                }
            }
        }
        F::MapConfig(a, m) => {
            tr.evs.push(Ev::Mapped('g', *m, cfg));
            ref_fac(a, mapfn(*m, cfg), tr)
        }
        F::UnitConfig(a) => ref_fac(a, 0, tr),
        F::Boxed(a) => {
            let r = ref_fac(a, cfg, tr);
            FacRef { pend: r.pend, res: r.res.map(|s| S::Wrap(WK::Boxed, Box::new(s))) }
        }
        F::Rc(a) | F::Arc(a) => ref_fac(a, cfg, tr),
        F::Reenter(_, k, a) => {
            tr.evs.push(Ev::Mapped('z', *k, cfg));
            if cfg % 2 == 1 {
                tr.evs.push(Ev::Mapped('z', *k, cfg - 1));
            }
            ref_fac(a, re_req(cfg), tr)
        }
    }
}

// ------------------------------------------------------------------------------------------------
// wake-driven manual executor and the `run` sub-command
// ------------------------------------------------------------------------------------------------

const FUEL: usize = 64;

struct PollRec {
    w: usize,
    from: usize, // index into the log where this poll's events start
    pending: bool,
    wakes: u32, // wake-ups received on this poll's waker after the poll
}

enum Drv<T> {
    Done(T),
    /// the future answered Pending and no wake-up for the waker of that poll ever comes
    Stalled,
    Fuel,
}

/// Drive `fut` with a fresh waker identity per poll; `w` is advanced.  After every poll the parked
/// wakers fire; the future is polled again only if the waker of the latest poll was woken — never
/// busy-polled.
fn drive<T>(fut: Pin<&mut (dyn Future<Output = T> + '_)>, w: &Cell<usize>, polls: &RefCell<Vec<PollRec>>) -> Drv<T> {
    drive_hook(fut, w, polls, &mut |_| {})
}
/// `before_poll(n)` runs before every poll, `n` = number of Pending answers so far (this is where the
/// owner of the future — the factory / the service it came from — is dropped in the `facd` / `calld` ops)
fn drive_hook<T>(mut fut: Pin<&mut (dyn Future<Output = T> + '_)>, w: &Cell<usize>, polls: &RefCell<Vec<PollRec>>, before_poll: &mut dyn FnMut(usize)) -> Drv<T> {
    for n in 0..FUEL {
        before_poll(n);
        let id = w.get();
        let waker = make_waker(id);
        let mut cx = Context::from_waker(&waker);
        let from = LOG.with(|l| l.borrow().len());
        polls.borrow_mut().push(PollRec { w: id, from, pending: true, wakes: 0 });
        let r = fut.as_mut().poll(&mut cx);
        w.set(id + 1);
        fire();
        let k = wakes_of(id);
        polls.borrow_mut().last_mut().unwrap().wakes = k;
        if let Poll::Ready(v) = r {
            polls.borrow_mut().last_mut().unwrap().pending = false;
            return Drv::Done(v);
        }
        if k == 0 {
            return Drv::Stalled;
        }
    }
    Drv::Fuel
}

fn fmt_log(l: &[Ev]) -> String {
    let v: Vec<String> = l.iter().map(|e| e.to_string()).collect();
    format!("[{}]", v.join(","))
}

fn has_wrapper(s: &S) -> bool {
    match s {
        S::Wrap(..) | S::Reenter(..) => true,
        S::Leaf { .. } | S::Fn { .. } => false,
        S::Map(x, _) | S::MapErr(x, _) | S::Apply(x, _, _) | S::Mw(x, _) => has_wrapper(x),
        S::Then(a, b) => has_wrapper(a) || has_wrapper(b),
    }
}
/// The tree without its (transparent) wrappers.  A re-entrant shim is user code and stays; it needs
/// some handle on itself, the plainest one is used (`Rc`).
fn unwrapped(s: &S) -> S {
    let b = |x: &S| Box::new(unwrapped(x));
    match s {
        S::Wrap(_, x) => unwrapped(x),
        S::Reenter(_, k, x) => S::Reenter(WK::Rc, *k, b(x)),
        S::Leaf { .. } | S::Fn { .. } => s.clone(),
        S::Map(x, f) => S::Map(b(x), *f),
        S::MapErr(x, f) => S::MapErr(b(x), *f),
        S::Apply(x, k, n) => S::Apply(b(x), *k, *n),
        S::Mw(x, t) => S::Mw(b(x), *t),
        S::Then(x, y) => S::Then(b(x), b(y)),
    }
}
fn fac_unwrapped(f: &F) -> F {
    let b = |x: &F| Box::new(fac_unwrapped(x));
    match f {
        F::Rc(a) | F::Arc(a) => fac_unwrapped(a),
        F::Reenter(_, k, a) => F::Reenter(PK::Rc, *k, b(a)),
        F::Leaf { id, ip, iok, use_cfg, s } => F::Leaf { id: *id, ip: *ip, iok: *iok, use_cfg: *use_cfg, s: unwrapped(s) },
        F::Fn { .. } => f.clone(),
        F::ApplyCfg { s, f, ip, iok } => F::ApplyCfg { s: unwrapped(s), f: *f, ip: *ip, iok: *iok },
        F::Map(a, m) => F::Map(b(a), *m),
        F::MapErr(a, m) => F::MapErr(b(a), *m),
        F::MapInitErr(a, m) => F::MapInitErr(b(a), *m),
        F::Apply(a, k, n) => F::Apply(b(a), *k, *n),
        F::MapConfig(a, m) => F::MapConfig(b(a), *m),
        F::UnitConfig(a) => F::UnitConfig(b(a)),
        F::Boxed(a) => F::Boxed(b(a)),
        F::Transform { t, tp, tok, mie, a, .. } => F::Transform { t: *t, tp: *tp, tok: *tok, pk: PK::Plain, mie: *mie, a: b(a) },
        F::ApplyCfgFac { a, f, ip, iok } => F::ApplyCfgFac { a: b(a), f: *f, ip: *ip, iok: *iok },
        F::Then(x, y) => F::Then(b(x), b(y)),
    }
}

/// run `f` on the REAL code on the side: event log, leaf registry, cell registry, reactor and
/// poll-after-completion flag of the main run are left as they were
fn on_the_side<T>(f: impl FnOnce() -> T) -> Result<T, String> {
    let saved_log = take_log();
    let saved_reg = REG.with(|r| r.borrow().clone());
    let saved_cells = CELLS.with(|c| std::mem::take(&mut *c.borrow_mut()));
    let saved_repoll = REPOLL.with(|r| r.get());
    let r = catch(f);
    take_log();
    LOG.with(|l| *l.borrow_mut() = saved_log);
    REG.with(|r| *r.borrow_mut() = saved_reg);
    CELLS.with(|c| *c.borrow_mut() = saved_cells);
    REPOLL.with(|r| r.set(saved_repoll));
    reset_reactor();
    r
}
/// what the real code answers for the same op on the tree WITHOUT the wrappers (fresh build from the
/// current scripts); `None` = panicked / stalled
fn side_ready(ast: &S, w: usize) -> Option<Option<Result<(), u32>>> {
    let u = unwrapped(ast);
    on_the_side(|| {
        let svc = build_svc(&u);
        let waker = make_waker(w + 1000);
        let mut cx = Context::from_waker(&waker);
        match svc.poll_ready(&mut cx) {
            Poll::Pending => None,
            Poll::Ready(r) => Some(r),
        }
    })
    .ok()
}
fn side_call(ast: &S, req: u32, w: usize) -> Option<Result<u32, u32>> {
    side_call_of(&unwrapped(ast), req, w)
}
/// the real answer of `call(req)` on a fresh build of `u`, the service kept alive during the drive
fn side_call_of(u: &S, req: u32, w: usize) -> Option<Result<u32, u32>> {
    on_the_side(|| {
        let svc = build_svc(u);
        let wc = Cell::new(w + 1000);
        let polls = RefCell::new(vec![]);
        let mut fut = svc.call(req);
        match drive(fut.as_mut(), &wc, &polls) {
            Drv::Done(r) => Some(r),
            _ => None,
        }
    })
    .ok()
    .flatten()
}
fn side_fac(f: &F, cfg: u32, w: usize) -> Option<Result<(), u32>> {
    side_fac_of(&fac_unwrapped(f), cfg, w)
}
/// the real answer of `new_service(cfg)` on a fresh build of `u`, the factory kept alive during the drive
fn side_fac_of(u: &F, cfg: u32, w: usize) -> Option<Result<(), u32>> {
    on_the_side(|| {
        let fac = build_fac(u);
        let wc = Cell::new(w + 1000);
        let polls = RefCell::new(vec![]);
        let mut fut = fac.new_service(cfg);
        match drive(fut.as_mut(), &wc, &polls) {
            Drv::Done(r) => Some(r.map(|_| ())),
            _ => None,
        }
    })
    .ok()
    .flatten()
}

fn fac_has_ptr(f: &F) -> bool {
    match f {
        F::Rc(_) | F::Arc(_) | F::Reenter(..) => true,
        F::Leaf { .. } | F::Fn { .. } | F::ApplyCfg { .. } => false,
        F::Map(a, _) | F::MapErr(a, _) | F::MapInitErr(a, _) | F::Apply(a, _, _) | F::MapConfig(a, _) => fac_has_ptr(a),
        F::UnitConfig(a) | F::Boxed(a) => fac_has_ptr(a),
        F::Transform { a, .. } | F::ApplyCfgFac { a, .. } => fac_has_ptr(a),
        F::Then(a, b) => fac_has_ptr(a) || fac_has_ptr(b),
    }
}

/// C12 checks common to call futures and init futures, on the events of one drive
fn check_polls(rep: &mut Report, what: &str, log: &[Ev], polls: &[PollRec], panicked: bool) {
    for (i, p) in polls.iter().enumerate() {
        // a poll that panicked did not answer at all (reported separately)
        let answered = !(panicked && i + 1 == polls.len());
        let to = polls.get(i + 1).map(|q| q.from).unwrap_or(log.len());
        let evs = &log[p.from.min(log.len())..to.min(log.len())];
        let mut inner_pending = false;
        for e in evs {
            let (w, pend) = match e {
                Ev::Polled(_, w, r) => (*w, r.is_none()),
                Ev::IPolled(_, w, r) => (*w, r.is_none()),
                Ev::Rdy(_, w, r) => (*w, r.is_none()),
                _ => continue,
            };
            if w != p.w {
                rep.t3("C12", &format!("waker-identity: {what}: inner future polled with waker {w} during the poll with waker {} ({e})", p.w));
            }
            inner_pending |= pend;
        }
        if answered && p.pending && !inner_pending {
            rep.t3("C12", &format!("pending-without-inner-pending: {what}: poll {} returned Pending although no inner future/service was pending with the current waker", p.w));
        }
        if answered && p.pending && p.wakes == 0 {
            rep.t3("C12", &format!("lost-wakeup: {what}: poll {} returned Pending {} but no wake-up for its waker was arranged: a wake-driven executor never polls the future again", p.w, fmt_log(evs)));
        }
    }
}

/// the non-Pending, non-readiness events of a log with waker identities erased
fn decisive(log: &[Ev]) -> Vec<Ev> {
    log.iter()
        .filter_map(|e| match e {
            Ev::Polled(_, _, None) | Ev::IPolled(_, _, None) | Ev::Rdy(..) => None,
            Ev::Polled(id, _, r) => Some(Ev::Polled(*id, 0, *r)),
            Ev::IPolled(id, _, r) => Some(Ev::IPolled(*id, 0, *r)),
            e => Some(e.clone()),
        })
        .collect()
}
/// multiset difference `a - b`
fn ms_minus(a: &[Ev], b: &[Ev]) -> Vec<Ev> {
    let mut b: Vec<Option<&Ev>> = b.iter().map(Some).collect();
    let mut out = vec![];
    for e in a {
        if let Some(slot) = b.iter_mut().find(|x| **x == Some(e)) {
            *slot = None;
        } else {
            out.push(e.clone());
        }
    }
    out
}

#[derive(Clone, Copy, PartialEq, Eq, Debug)]
enum Verdict {
    Pending,
    Ok,
    Err,
    /// some inner service was not polled in the readiness poll that let the closure run
    NotAsked,
}

/// C12 oracles on the log of one `new_service` drive: readiness errors and the readiness gate
fn check_fac_readiness(rep: &mut Report, what: &str, log: &[Ev], res: &str, got_err: bool, tr: &FacTrace) {
    // (a) an inner readiness error is reported instead of ready: once a created service answered
    //     poll_ready with Err the future must resolve to an error in that very poll and no further
    //     stage (factory, transform, configure closure, inner poll) may run
    if let Some(i) = log.iter().position(|e| matches!(e, Ev::Rdy(_, _, Some(Err(_))))) {
        let later: Vec<Ev> = log[i + 1..].iter().filter(|e| !matches!(e, Ev::Mapped('e', ..) | Ev::Mapped('h', ..))).cloned().collect();
        if !got_err || !later.is_empty() {
            rep.t3(
                "C12",
                &format!(
                    "ready-err-not-reported: {what}: the created inner service answered poll_ready with {} but the factory future went on {} and resolved to {res}; an inner readiness error must be reported (as the init error) instead of ready",
                    log[i],
                    fmt_log(&later)
                ),
            );
        }
    }
    // (b) the configure closure of apply_cfg_factory runs only after the created service reported
    //     Ready(Ok) (every inner service ready), never while it is Pending / without asking
    for g in &tr.gates {
        if tr.cfg_fn_ids.iter().filter(|x| **x == g.f).count() != 1 || g.leaf_ids.is_empty() {
            continue;
        }
        for (i, e) in log.iter().enumerate() {
            if *e != Ev::Mapped('f', g.f, g.cfg) {
                continue;
            }
            // the readiness answers of the latest poll_ready of the created service before the closure
            let last_w = log[..i].iter().rev().find_map(|e| match e {
                Ev::Rdy(id, w, _) if g.leaf_ids.contains(id) => Some(*w),
                _ => None,
            });
            let verdict = last_w.map(|lw| {
                let mut v = Verdict::Ok;
                // every inner service must have been asked in that poll
                for lid in &g.leaf_ids {
                    if !log[..i].iter().any(|e| matches!(e, Ev::Rdy(id, w, _) if id == lid && *w == lw)) {
                        v = Verdict::NotAsked;
                    }
                }
                for e in &log[..i] {
                    if let Ev::Rdy(id, w, r) = e {
                        if *w == lw && g.leaf_ids.contains(id) {
                            match r {
                                Some(Err(_)) => v = Verdict::Err,
                                None if v == Verdict::Ok || v == Verdict::NotAsked => v = Verdict::Pending,
                                _ => {}
                            }
                        }
                    }
                }
                v
            });
            match verdict {
                Some(Verdict::Ok) => {}
                Some(v) => rep.t3("C12", &format!("configured-while-not-ready: {what}: the configure closure {} ran although the created service had answered poll_ready with {v:?} (waker {}); it may run only after Ready(Ok)", log[i], last_w.unwrap())),
                None => rep.t3("C12", &format!("configured-without-readiness: {what}: the configure closure {} ran before the created service was asked for readiness", log[i])),
            }
        }
    }
}

fn run(a: &Args) {
    silence_panics();
    let mut rep = Report::new(&a.output);
    let mut cur: Option<BS> = None;
    let mut cur_ast: Option<S> = None;
    let mut cov = Coverage::default();
    let w = Cell::new(0usize);
    let mut nop = 0usize;
    for line in in_lines(&a.input) {
        let toks = tokenize(&line);
        let head = toks.first().map(|s| s.as_str()).unwrap_or("");
        nop = if head == "case" { 0 } else { nop + 1 };
        take_log();
        reset_reactor();
        // on every other op the harness itself keeps a shared borrow (`Ref`) of every `RefCell`
        // wrapper in the current service alive across the poll_ready / the call and its drive
        let cells: Vec<Rc<dyn HeldCell>> = if nop % 2 == 0 && matches!(head, "ready" | "call") { CELLS.with(|c| c.borrow().clone()) } else { vec![] };
        let _guards: Vec<Box<dyn Guard + '_>> = cells.iter().map(|c| c.hold()).collect();
        let held = if cells.is_empty() { "" } else { " while the caller holds a Ref of the RefCell wrapper(s)" };
        REPOLL.with(|r| r.set(false));
        let real: String = match head {
            "case" => {
                cur = None;
                cur_ast = None;
                w.set(0);
                WAKES.with(|w| w.borrow_mut().clear());
                REG.with(|r| r.borrow_mut().clear());
                CELLS.with(|c| c.borrow_mut().clear());
                "ok".into()
            }
            "svc" => {
                let mut p = P { t: &toks, i: 1 };
                match p.svc() {
                    Some(s) if p.i == toks.len() && {
                        let mut ids = vec![];
                        svc_leaf_ids(&s, &mut ids);
                        nodup(&ids)
                    } =>
                    {
                        REG.with(|r| r.borrow_mut().clear());
                        CELLS.with(|c| c.borrow_mut().clear());
                        cur = Some(build_svc(&s));
                        cur_ast = Some(s);
                        "ok".into()
                    }
                    _ => "bad-op".into(),
                }
            }
            "ready" if toks.len() == 1 && cur.is_some() => {
                let svc = cur.as_ref().unwrap();
                let id = w.get();
                let r = catch(|| {
                    let waker = make_waker(id);
                    let mut cx = Context::from_waker(&waker);
                    svc.poll_ready(&mut cx)
                });
                w.set(id + 1);
                fire();
                let k = wakes_of(id);
                let log = take_log();
                let res = match &r {
                    Ok(Poll::Pending) => "pending".to_string(),
                    Ok(Poll::Ready(Ok(()))) => "ok".to_string(),
                    Ok(Poll::Ready(Err(e))) => format!("err:{e}"),
                    Err(_) => "panic".to_string(),
                };
                // ---- T3 (C12) on the real behaviour
                if let Some(ast) = cur_ast.as_mut() {
                    cov.ready(ast);
                    let mut want_maps = vec![];
                    let want = ref_ready_ev(ast, &mut want_maps);
                    let got = match &r {
                        Ok(Poll::Pending) => Some(None),
                        Ok(Poll::Ready(x)) => Some(Some(*x)),
                        Err(_) => None,
                    };
                    if got != Some(want) {
                        rep.t3("C12", &format!("ready-conj: poll_ready of {ast} answered {res}, the conjunction of the inner services is {want:?}"));
                        // is it the wrappers?  the same op on the real tree without them
                        if has_wrapper(ast) && side_ready(ast, id) == Some(want) {
                            rep.t3("C11", &format!("wrapper-not-transparent: poll_ready of {ast}{held} {}, differs from the unwrapped tree: the real {} answers {want:?}", if r.is_err() { format!("panicked ({})", r.as_ref().err().unwrap()) } else { format!("answered {res}") }, unwrapped(ast)));
                        }
                    }
                    let got_maps: Vec<Ev> = log.iter().filter(|e| matches!(e, Ev::Mapped(..))).cloned().collect();
                    if got_maps != want_maps {
                        rep.t3("C12", &format!("ready-err-mapping: poll_ready of {ast}: the map_err closures ran as {} but the readiness error must pass through exactly {} (each enclosing map_err once, inside out)", fmt_log(&got_maps), fmt_log(&want_maps)));
                    }
                    let mut ls = vec![];
                    leaves(ast, &mut ls);
                    let mut seen: HashMap<u32, u32> = HashMap::new();
                    for e in &log {
                        if let Ev::Rdy(lid, lw, _) = e {
                            *seen.entry(*lid).or_default() += 1;
                            if *lw != id {
                                rep.t3("C12", &format!("waker-identity: leaf {lid} poll_ready saw waker {lw}, current waker is {id}"));
                            }
                        }
                    }
                    if seen.values().any(|c| *c > 1) {
                        rep.t3("C12", "ready-polled-twice: an inner service was polled for readiness twice within one poll_ready");
                    }
                    // readiness is a statement about NOW: Ready(Ok) only after every inner service has been
                    // asked in this very poll (and answered Ready(Ok)); never from a remembered answer
                    if matches!(r, Ok(Poll::Ready(Ok(())))) {
                        for l in &ls {
                            if let S::Leaf { id: lid, .. } = l {
                                let asked_ok = log.iter().any(|e| matches!(e, Ev::Rdy(i, _, Some(Ok(()))) if i == lid));
                                if !asked_ok {
                                    let how = match log.iter().find(|e| matches!(e, Ev::Rdy(i, _, _) if i == lid)) {
                                        Some(e) => format!("it answered {e}"),
                                        None => "it was not asked at all: a remembered readiness".to_string(),
                                    };
                                    rep.t3("C12", &format!("ready-not-asked: poll_ready of {ast} answered Ready(Ok) {} although inner service {lid} did not answer Ready(Ok) in this poll ({how})", fmt_log(&log)));
                                }
                            }
                        }
                    }
                    if let Ok(Poll::Ready(Err(_))) = r {
                        if !log.iter().any(|e| matches!(e, Ev::Rdy(_, _, Some(Err(_))))) {
                            rep.t3("C12", &format!("ready-err-invented: poll_ready of {ast} answered {res} {} although no inner service answered an error in this poll", fmt_log(&log)));
                        }
                    }
                    if matches!(r, Ok(Poll::Pending)) {
                        let mut any = false;
                        for l in &ls {
                            if let S::Leaf { id: lid, rp, .. } = l {
                                if *rp > 0 {
                                    any = true;
                                    if !seen.contains_key(lid) {
                                        rep.t3("C12", &format!("lost-wakeup: poll_ready of {ast} answered Pending but pending leaf {lid} was not polled with the current waker (lost wake-up)"));
                                    }
                                }
                            }
                        }
                        if !any {
                            rep.t3("C12", &format!("pending-without-inner-pending: poll_ready of {ast} answered Pending although no inner service is pending"));
                        }
                        if k == 0 {
                            rep.t3("C12", &format!("lost-wakeup: poll_ready of {ast} answered Pending {} but no wake-up for the current waker {id} was arranged", fmt_log(&log)));
                        }
                    }
                    sync_ast(ast);
                }
                if r.is_err() {
                    format!("{} r={res}", fmt_log(&log))
                } else {
                    format!("{} r={res} k={k}", fmt_log(&log))
                }
            }
            "reset" if toks.len() == 4 && cur.is_some() => {
                let args = (num(&toks[1]), num(&toks[2]), match toks[3].as_str() {
                    "ok" => Some(true),
                    "err" => Some(false),
                    _ => None,
                });
                let mut ids = vec![];
                if let Some(ast) = cur_ast.as_ref() {
                    svc_leaf_ids(ast, &mut ids);
                }
                match args {
                    (Some(i), Some(rp), Some(rok)) if ids.contains(&i) => {
                        REG.with(|r| {
                            if let Some(c) = r.borrow().get(&i) {
                                c.0.set(rp);
                                c.1.set(rok);
                            }
                        });
                        rescript_ast(cur_ast.as_mut().unwrap(), i, rp, rok);
                        "ok".into()
                    }
                    _ => "bad-op".into(),
                }
            }
            "call" | "calld"
                if cur.is_some() && ((head == "call" && toks.len() == 2) || (head == "calld" && toks.len() == 3)) && toks[1..].iter().all(|t| num(t).is_some()) =>
            {
                // `calld k req`: the SERVICE value is dropped after `call` returned its future and the
                // future answered Pending k times (k = 0: before the first poll); the call future must own
                // what it needs.  Afterwards there is no current service.
                let drop_after = if head == "calld" { num(&toks[1]).map(|k| k as usize) } else { None };
                let req = num(toks.last().unwrap()).unwrap();
                let owner = RefCell::new(cur.take());
                let polls = RefCell::new(vec![]);
                let mark = Cell::new(None);
                let r = catch(|| {
                    let mut fut = owner.borrow().as_ref().unwrap().call(req);
                    mark.set(Some(LOG.with(|l| l.borrow().len())));
                    drive_hook(fut.as_mut(), &w, &polls, &mut |n| {
                        if drop_after == Some(n) {
                            CELLS.with(|c| c.borrow_mut().clear());
                            drop(owner.borrow_mut().take());
                        }
                    })
                });
                if drop_after.is_none() {
                    cur = owner.into_inner();
                } else {
                    CELLS.with(|c| c.borrow_mut().clear());
                }
                let log = take_log();
                let polls = polls.into_inner();
                let k: u32 = polls.iter().map(|p: &PollRec| wakes_of(p.w)).sum();
                let res = match &r {
                    Ok(Drv::Done(Ok(v))) => format!("ok:{v}"),
                    Ok(Drv::Done(Err(e))) => format!("err:{e}"),
                    Ok(Drv::Fuel) => "stuck".to_string(),
                    Ok(Drv::Stalled) => "stalled".to_string(),
                    Err(_) => "panic".to_string(),
                };
                // ---- T3
                if let Some(ast) = cur_ast.as_ref() {
                    let _ = cov.call(ast, req);
                    let mut want_log = vec![];
                    let want = ref_call(ast, req, &mut want_log);
                    if !matches!(&r, Ok(Drv::Done(x)) if *x == want) {
                        let mut blamed_drop = false;
                        if let Some(n) = drop_after {
                            // is it the drop?  the same call on the real tree with the service kept alive
                            if side_call_of(ast, req, w.get()) == Some(want) {
                                blamed_drop = true;
                                rep.t3("C11", &format!("owner-dropped: call({req}) of {ast}: the call future {} after its service was dropped (after {n} Pending polls); with the service alive the real code yields {want:?}: the future must own what it needs", if r.is_err() { format!("panicked ({})", r.as_ref().err().unwrap()) } else { format!("behaved differently (resolved to {res})") }));
                            }
                        }
                        if !blamed_drop && has_wrapper(ast) && side_call(ast, req, w.get()) == Some(want) {
                            rep.t3("C11", &format!("wrapper-not-transparent: call({req}) of {ast}{held} {}, differs from the unwrapped tree: the real {} yields {want:?}", if r.is_err() { format!("panicked ({})", r.as_ref().err().unwrap()) } else { format!("resolved to {res}") }, unwrapped(ast)));
                        }
                        rep.t3("C11", &format!("composition-result: call({req}) of {ast} resolved to {res}, the reference composition is {want:?}"));
                    }
                    let got_log: Vec<Ev> = log
                        .iter()
                        .filter_map(|e| match e {
                            Ev::Polled(_, _, None) => None,
                            Ev::Polled(id, _, r) => Some(Ev::Polled(*id, 0, *r)),
                            e => Some(e.clone()),
                        })
                        .collect();
                    if let Some(m) = mark.get() {
                        let n = sync_len(ast, req).min(want_log.len());
                        if log[..m.min(log.len())] != want_log[..n] {
                            rep.t3("C11", &format!("call-not-eager: call({req}) of {ast}: when `call` returned its future {} had happened, the composition invokes the first stage at call time: {}", fmt_log(&log[..m.min(log.len())]), fmt_log(&want_log[..n])));
                        }
                    }
                    if got_log != want_log {
                        rep.t3("C11", &format!("composition-trace: call({req}) of {ast}: stages/mappers ran as {} but the composition requires {} (each stage once, in order, after the previous one completed; each mapper once on the matching variant)", fmt_log(&got_log), fmt_log(&want_log)));
                    }
                    if REPOLL.with(|r| r.get()) {
                        rep.t3("C12", &format!("poll-after-done: call({req}) of {ast}: an inner future was polled again after it completed"));
                    }
                    if r.is_err() && !REPOLL.with(|r| r.get()) {
                        rep.t3("C12", &format!("future-panicked: call({req}) of {ast}: the combinator future panicked after {} (a future that answered Pending must be pollable again)", fmt_log(&log)));
                    }
                    let mut calls: HashMap<u32, u32> = HashMap::new();
                    let mut lids = vec![];
                    svc_leaf_ids(ast, &mut lids);
                    for e in &log {
                        if let Ev::Called(id, _) = e {
                            if lids.contains(id) {
                                *calls.entry(*id).or_default() += 1;
                            }
                        }
                    }
                    if calls.values().any(|c| *c > 1) {
                        rep.t3("C12", &format!("stage-twice: call({req}) of {ast}: a stage was invoked more than once"));
                    }
                    check_polls(&mut rep, &format!("call({req}) of {ast}"), &log, &polls, r.is_err());
                }
                if drop_after.is_some() {
                    cur_ast = None;
                }
                if r.is_err() {
                    format!("{} r={res}", fmt_log(&log))
                } else {
                    format!("{} r={res} k={k}", fmt_log(&log))
                }
            }
            "call2" if toks.len() == 4 && cur.is_some() && matches!(toks[1].as_str(), "fwd" | "rev" | "drop") && num(&toks[2]).is_some() && num(&toks[3]).is_some() => {
                // two call futures of the same service alive at once: `call(r1)` then `call(r2)`, then
                // fwd: drive the first, then the second; rev: the second first; drop: the first is dropped
                // without ever being polled.  `call` invokes the first stage at once, in call order.
                let mode = toks[1].as_str();
                let (r1, r2) = (num(&toks[2]).unwrap(), num(&toks[3]).unwrap());
                let svc = cur.as_ref().unwrap();
                let polls = RefCell::new(vec![]);
                let mark = Cell::new(None);
                let r = catch(|| {
                    let mut f1 = svc.call(r1);
                    let mut f2 = svc.call(r2);
                    mark.set(Some(LOG.with(|l| l.borrow().len())));
                    match mode {
                        "fwd" => {
                            let a = drive(f1.as_mut(), &w, &polls);
                            let b = drive(f2.as_mut(), &w, &polls);
                            (Some(a), b)
                        }
                        "rev" => {
                            let b = drive(f2.as_mut(), &w, &polls);
                            let a = drive(f1.as_mut(), &w, &polls);
                            (Some(a), b)
                        }
                        _ => {
                            drop(f1);
                            (None, drive(f2.as_mut(), &w, &polls))
                        }
                    }
                });
                let log = take_log();
                let polls = polls.into_inner();
                let k: u32 = polls.iter().map(|p: &PollRec| wakes_of(p.w)).sum();
                let ds = |d: &Drv<Result<u32, u32>>| match d {
                    Drv::Done(Ok(v)) => format!("ok:{v}"),
                    Drv::Done(Err(e)) => format!("err:{e}"),
                    Drv::Fuel => "stuck".to_string(),
                    Drv::Stalled => "stalled".to_string(),
                };
                let res = match &r {
                    Ok((a, b)) => format!("{},{}", a.as_ref().map(ds).unwrap_or_else(|| "dropped".to_string()), ds(b)),
                    Err(_) => "panic".to_string(),
                };
                if let Some(ast) = cur_ast.as_ref() {
                    let (mut l1, mut l2) = (vec![], vec![]);
                    let want1 = ref_call(ast, r1, &mut l1);
                    let want2 = ref_call(ast, r2, &mut l2);
                    let (n1, n2) = (sync_len(ast, r1).min(l1.len()), sync_len(ast, r2).min(l2.len()));
                    let what = format!("call({r1}) and call({r2}) of {ast}, {}", match mode {
                        "fwd" => "driven in call order",
                        "rev" => "the second future driven first",
                        _ => "the first future dropped unpolled",
                    });
                    let ok = match &r {
                        Ok((a, b)) => matches!(b, Drv::Done(x) if *x == want2) && a.as_ref().map(|a| matches!(a, Drv::Done(x) if *x == want1)).unwrap_or(true),
                        Err(_) => false,
                    };
                    if !ok {
                        rep.t3("C11", &format!("composition-result: {what} resolved to {res}, the reference compositions are {want1:?} and {want2:?} (independent of the order in which the futures are polled)"));
                    }
                    // at call time, in call order: the first stage of each call
                    let mut want_sync = l1[..n1].to_vec();
                    want_sync.extend_from_slice(&l2[..n2]);
                    if let Some(m) = mark.get() {
                        if log[..m.min(log.len())] != want_sync[..] {
                            rep.t3("C11", &format!("call-not-eager: {what}: when both `call`s had returned {} had happened; the composition invokes the first stage at call time, in call order: {}", fmt_log(&log[..m.min(log.len())]), fmt_log(&want_sync)));
                        }
                    }
                    // then the rest of each composition, in the order the futures are driven
                    let mut want_log = want_sync.clone();
                    match mode {
                        "fwd" => {
                            want_log.extend_from_slice(&l1[n1..]);
                            want_log.extend_from_slice(&l2[n2..]);
                        }
                        "rev" => {
                            want_log.extend_from_slice(&l2[n2..]);
                            want_log.extend_from_slice(&l1[n1..]);
                        }
                        _ => want_log.extend_from_slice(&l2[n2..]),
                    }
                    let got_log: Vec<Ev> = log
                        .iter()
                        .filter_map(|e| match e {
                            Ev::Polled(_, _, None) => None,
                            Ev::Polled(id, _, r) => Some(Ev::Polled(*id, 0, *r)),
                            e => Some(e.clone()),
                        })
                        .collect();
                    if r.is_ok() && got_log != want_log {
                        rep.t3("C11", &format!("composition-trace: {what}: stages/mappers ran as {} but the compositions require {} (each first stage at its `call`, every later step when its own future is polled)", fmt_log(&got_log), fmt_log(&want_log)));
                    }
                    if REPOLL.with(|r| r.get()) {
                        rep.t3("C12", &format!("poll-after-done: {what}: an inner future was polled again after it completed"));
                    }
                    if r.is_err() && !REPOLL.with(|r| r.get()) {
                        rep.t3("C12", &format!("future-panicked: {what}: a combinator future panicked after {}", fmt_log(&log)));
                    }
                    check_polls(&mut rep, &what, &log, &polls, r.is_err());
                }
                if r.is_err() {
                    format!("{} r={res}", fmt_log(&log))
                } else {
                    format!("{} r={res} k={k}", fmt_log(&log))
                }
            }
            "fac" | "facd" => {
                // `facd k F cfg`: the FACTORY value is dropped after `new_service` returned the future and
                // the future answered Pending k times (k = 0: before the first poll, a temporary factory)
                let facd = head == "facd";
                let drop_after = if facd { toks.get(1).and_then(|t| num(t)).map(|k| k as usize) } else { None };
                let mut p = P { t: &toks, i: if facd { 2 } else { 1 } };
                let parsed = (if facd && drop_after.is_none() { None } else { Some(()) }).and_then(|_| p.fac()).and_then(|f| {
                    let cfg = p.num()?;
                    let mut ids = vec![];
                    fac_leaf_ids(&f, &mut ids);
                    if p.i == toks.len() && nodup(&ids) {
                        Some((f, cfg))
                    } else {
                        None
                    }
                });
                match parsed {
                    None => "bad-op".into(),
                    Some((f, cfg)) => {
                        REG.with(|r| r.borrow_mut().clear());
                        CELLS.with(|c| c.borrow_mut().clear());
                        cur = None;
                        cur_ast = None;
                        let polls = RefCell::new(vec![]);
                        let mark = Cell::new(None);
                        let r = catch(|| {
                            let fac = RefCell::new(Some(build_fac(&f)));
                            let mut fut = fac.borrow().as_ref().unwrap().new_service(cfg);
                            mark.set(Some(LOG.with(|l| l.borrow().len())));
                            drive_hook(fut.as_mut(), &w, &polls, &mut |n| {
                                if drop_after == Some(n) {
                                    drop(fac.borrow_mut().take());
                                }
                            })
                        });
                        let log = take_log();
                        let polls = polls.into_inner();
                        let k: u32 = polls.iter().map(|p: &PollRec| wakes_of(p.w)).sum();
                        let res = match &r {
                            Ok(Drv::Done(Ok(_))) => "ok".to_string(),
                            Ok(Drv::Done(Err(e))) => format!("err:{e}"),
                            Ok(Drv::Fuel) => "stuck".to_string(),
                            Ok(Drv::Stalled) => "stalled".to_string(),
                            Err(_) => "panic".to_string(),
                        };
                        // ---- T3
                        let what = format!("new_service({cfg}) of {f}");
                        let mut tr = FacTrace::default();
                        let want = ref_fac(&f, cfg, &mut tr);
                        cov.fac(&f, cfg);
                        let agrees = match (&r, &want.res) {
                            (Ok(Drv::Done(Ok(_))), Ok(_)) => true,
                            (Ok(Drv::Done(Err(e))), Err(we)) => e == we,
                            _ => false,
                        };
                        if !agrees {
                            let want_unit = want.res.as_ref().map(|_| ()).map_err(|e| *e);
                            let mut blamed_drop = false;
                            if let Some(n) = drop_after {
                                // is it the drop?  the same new_service on the real tree with the factory kept alive
                                if side_fac_of(&f, cfg, w.get()) == Some(want_unit) {
                                    blamed_drop = true;
                                    rep.t3("C11", &format!("owner-dropped: {what}: the init future {} after its factory was dropped (after {n} Pending polls); with the factory alive the real code yields {want_unit:?}: the future must own what it needs", if r.is_err() { format!("panicked ({})", r.as_ref().err().unwrap()) } else { format!("behaved differently (resolved to {res})") }));
                                }
                            }
                            if !blamed_drop && fac_has_ptr(&f) && side_fac(&f, cfg, w.get()) == Some(want_unit) {
                                rep.t3("C11", &format!("wrapper-not-transparent: {what} {}, differs from the unwrapped tree: the real {} yields {want_unit:?}", if r.is_err() { format!("panicked ({})", r.as_ref().err().unwrap()) } else { format!("resolved to {res}") }, fac_unwrapped(&f)));
                            }
                            rep.t3("C11", &format!("factory-result: {what} resolved to {res}, the reference is {:?}", want.res.as_ref().map(|s| s.to_string())));
                        }
                        let got_news: Vec<(u32, u32)> = log.iter().filter_map(|e| if let Ev::New(i, c) = e { Some((*i, *c)) } else { None }).collect();
                        // which factories are asked, and with what — not in which order
                        let sorted = |v: &Vec<(u32, u32)>| {
                            let mut v = v.clone();
                            v.sort_unstable();
                            v
                        };
                        if let Some(m) = mark.get() {
                            let mut want_sync = vec![];
                            fac_sync(&f, cfg, &mut want_sync);
                            if log[..m.min(log.len())] != want_sync[..] {
                                rep.t3("C11", &format!("new-service-not-eager: {what}: when `new_service` returned its future {} had happened, the composition asks every inner factory (and runs config mappers / the apply_cfg closure) at that time, in pipeline order: {}", fmt_log(&log[..m.min(log.len())]), fmt_log(&want_sync)));
                            }
                        }
                        if sorted(&got_news) != sorted(&tr.news) {
                            rep.t3("C11", &format!("factory-builds-once: {what}: inner factories were asked {got_news:?}, expected each once with its config: {:?}", tr.news));
                        } else if got_news != tr.news {
                            // every inner new_service is called synchronously by the outer new_service, in
                            // pipeline order: first stage before second stage, inner factory before what is built on it
                            rep.t3("C11", &format!("factory-build-order: {what}: inner factories were asked in the order {got_news:?}, the reference composition builds them in pipeline order {:?} (first stage, then second stage)", tr.news));
                        }
                        if agrees && polls.len() != want.pend as usize + 1 {
                            rep.t3("C11", &format!("factory-first-error-poll: {what} resolved at poll {} but the first decisive inner result is at poll {}", polls.len(), want.pend + 1));
                        }
                        // every construction step (factory asked, init future completed, transform
                        // created, closure / mapper applied) happens at most once, and exactly once
                        // when nothing can cut the run short
                        if r.is_ok() {
                            let got = decisive(&log);
                            let extra = ms_minus(&got, &tr.evs);
                            if !extra.is_empty() {
                                rep.t3("C11", &format!("factory-trace: {what}: construction steps {} are not part of the reference composition {}", fmt_log(&extra), fmt_log(&tr.evs)));
                            }
                            let missing = ms_minus(&tr.evs, &got);
                            if (want.res.is_ok() || tr.joins == 0) && !missing.is_empty() && extra.is_empty() {
                                rep.t3("C11", &format!("factory-trace: {what}: construction steps {} of the reference composition did not happen (log {})", fmt_log(&missing), fmt_log(&got)));
                            }
                        }
                        if REPOLL.with(|r| r.get()) {
                            rep.t3("C12", &format!("poll-after-done: {what}: an inner init future was polled again after it completed"));
                        }
                        if r.is_err() && !REPOLL.with(|r| r.get()) {
                            rep.t3("C12", &format!("future-panicked: {what}: the factory future panicked after {}", fmt_log(&log)));
                        }
                        check_polls(&mut rep, &what, &log, &polls, r.is_err());
                        check_fac_readiness(&mut rep, &what, &log, &res, matches!(&r, Ok(Drv::Done(Err(_)))), &tr);
                        if let (Ok(Drv::Done(Ok(svc))), Ok(ast)) = (r, want.res) {
                            cur = Some(svc);
                            let mut ast = ast;
                            sync_ast(&mut ast);
                            cur_ast = Some(ast);
                            format!("{} r={res} k={k}", fmt_log(&log))
                        } else if res == "panic" {
                            format!("{} r={res}", fmt_log(&log))
                        } else {
                            format!("{} r={res} k={k}", fmt_log(&log))
                        }
                    }
                }
            }
            _ => "bad-op".into(),
        };
        rep.obs(&line, &real);
    }
    cov.report(&mut rep);
    rep.finish();
}

// ------------------------------------------------------------------------------------------------
// state coverage: which state of which hand-written Future / poll_ready was reached after how many
// Pendings and with which inner outcome (derived from the op and the reference, reported as #NOTE)
// ------------------------------------------------------------------------------------------------

#[derive(Default)]
struct Coverage {
    keys: std::collections::BTreeMap<String, u64>,
}
fn pb(p: u32) -> u32 {
    p.min(2)
}
fn step_str(r: Option<Result<(), u32>>) -> &'static str {
    match r {
        None => "pending",
        Some(Ok(())) => "ok",
        Some(Err(_)) => "err",
    }
}
impl Coverage {
    fn hit(&mut self, k: String) {
        *self.keys.entry(k).or_default() += 1;
    }
    /// (Pending polls, result) of `call(req)`; records the states passed through
    fn call(&mut self, s: &S, req: u32) -> (u32, Result<u32, u32>) {
        match s {
            S::Leaf { id, cp, cok, .. } => (*cp, leaf_res(*id, *cok, req)),
            S::Fn { id, cok } => {
                let r = leaf_res(*id, *cok, req);
                self.hit(format!("fn_service.call:{}", oe(r.is_ok())));
                (0, r)
            }
            S::Map(s, f) => {
                let (p, r) = self.call(s, req);
                self.hit(format!("MapFuture:pend{}:{}", pb(p), oe(r.is_ok())));
                (p, r.map(|v| mapfn(*f, v)))
            }
            S::MapErr(s, f) => {
                let (p, r) = self.call(s, req);
                self.hit(format!("MapErrFuture:pend{}:{}", pb(p), oe(r.is_ok())));
                (p, r.map_err(|e| mapfn(*f, e)))
            }
            S::Then(a, b) => {
                let (pa, ra) = self.call(a, req);
                self.hit(format!("AndThenServiceResponse.A:pend{}:{}", pb(pa), oe(ra.is_ok())));
                match ra {
                    Err(e) => (pa, Err(e)),
                    Ok(v) => {
                        let (p2, rb) = self.call(b, v);
                        self.hit(format!("AndThenServiceResponse.B:pend{}:{}", pb(p2), oe(rb.is_ok())));
                        (pa + p2, rb)
                    }
                }
            }
            S::Apply(s, kind, k) => {
                let (p, r) = match kind {
                    AK::Pre => self.call(s, mapfn(*k, req)),
                    AK::Short => (0, Err(mapfn(*k, req))),
                    AK::Post => {
                        let (p, r) = self.call(s, req);
                        (p, r.map(|v| mapfn(*k, v)))
                    }
                };
                self.hit(format!("Apply.call({kind}):pend{}:{}", pb(p), oe(r.is_ok())));
                (p, r)
            }
            S::Wrap(w, s) => {
                let (p, r) = self.call(s, req);
                self.hit(format!("wrapper({w}).call:pend{}:{}", pb(p), oe(r.is_ok())));
                (p, r)
            }
            S::Mw(s, t) => {
                let (p, r) = self.call(s, req);
                (p, r.map(|v| mapfn(*t, v)))
            }
            S::Reenter(w, _, s) => {
                let (p, r) = self.call(s, re_req(req));
                self.hit(format!("reentrant({w}).call({}):pend{}:{}", if req % 2 == 1 { "re-entered" } else { "direct" }, pb(p), oe(r.is_ok())));
                (p, r)
            }
        }
    }
    fn ready(&mut self, s: &S) -> Option<Result<(), u32>> {
        match s {
            S::Leaf { .. } | S::Fn { .. } => ref_ready(s),
            S::Then(a, b) => {
                let ra = self.ready(a);
                let rb = self.ready(b);
                self.hit(format!("AndThenService.poll_ready:a={},b={}", step_str(ra), step_str(rb)));
                ref_ready(s)
            }
            S::Map(x, _) => {
                let r = self.ready(x);
                self.hit(format!("Map.poll_ready:{}", step_str(r)));
                r
            }
            S::MapErr(x, _) => {
                let r = self.ready(x);
                self.hit(format!("MapErr.poll_ready:{}", step_str(r)));
                ref_ready(s)
            }
            S::Apply(x, _, _) => {
                let r = self.ready(x);
                self.hit(format!("Apply.poll_ready:{}", step_str(r)));
                r
            }
            S::Wrap(w, x) => {
                let r = self.ready(x);
                self.hit(format!("wrapper({w}).poll_ready:{}", step_str(r)));
                r
            }
            S::Mw(x, _) => self.ready(x),
            S::Reenter(w, _, x) => {
                let r = self.ready(x);
                self.hit(format!("reentrant({w}).poll_ready:{}", step_str(r)));
                r
            }
        }
    }
    fn fac(&mut self, f: &F, cfg: u32) {
        let den = |f: &F, cfg: u32| ref_fac(f, cfg, &mut FacTrace::default());
        let me = den(f, cfg);
        let tag = |r: &FacRef| format!("pend{}:{}", pb(r.pend), oe(r.res.is_ok()));
        match f {
            F::Leaf { use_cfg, .. } => self.hit(format!("{}:{}", if *use_cfg { "fn_factory_with_config" } else { "fn_factory" }, tag(&me))),
            F::Fn { .. } => self.hit("fn_service.new_service(Ready)".into()),
            F::Map(a, _) => {
                self.hit(format!("MapServiceFuture:{}", tag(&den(a, cfg))));
                self.fac(a, cfg)
            }
            F::MapErr(a, _) => {
                self.hit(format!("MapErrServiceFuture:{}", tag(&den(a, cfg))));
                self.fac(a, cfg)
            }
            F::MapInitErr(a, _) => {
                self.hit(format!("MapInitErrFuture:{}", tag(&den(a, cfg))));
                self.fac(a, cfg)
            }
            F::Apply(a, _, _) => {
                self.hit(format!("ApplyServiceFactoryResponse:{}", tag(&den(a, cfg))));
                self.fac(a, cfg)
            }
            F::Boxed(a) => {
                self.hit(format!("boxed::factory:{}", tag(&den(a, cfg))));
                self.fac(a, cfg)
            }
            F::Rc(a) => {
                self.hit(format!("Rc<factory>:{}", tag(&den(a, cfg))));
                self.fac(a, cfg)
            }
            F::Arc(a) => {
                self.hit(format!("Arc<factory>:{}", tag(&den(a, cfg))));
                self.fac(a, cfg)
            }
            F::MapConfig(a, m) => {
                self.hit(format!("map_config:{}", tag(&den(a, mapfn(*m, cfg)))));
                self.fac(a, mapfn(*m, cfg))
            }
            F::UnitConfig(a) => {
                self.hit(format!("unit_config:{}", tag(&den(a, 0))));
                self.fac(a, 0)
            }
            F::Reenter(pk, _, a) => {
                self.hit(format!("reentrant {pk}<factory>({}):{}", if cfg % 2 == 1 { "re-entered" } else { "direct" }, tag(&den(a, re_req(cfg)))));
                self.fac(a, re_req(cfg))
            }
            F::Then(a, b) => {
                let (ra, rb) = (den(a, cfg), den(b, cfg));
                self.hit(format!("AndThenServiceFactoryResponse:a={}@{},b={}@{}", oe(ra.res.is_ok()), pb(ra.pend), oe(rb.res.is_ok()), pb(rb.pend)));
                self.fac(a, cfg);
                self.fac(b, cfg)
            }
            F::Transform { tp, tok, pk, mie, a, .. } => {
                let ra = den(a, cfg);
                self.hit(format!("ApplyTransformFuture.A:{}", tag(&ra)));
                if ra.res.is_ok() {
                    self.hit(format!("ApplyTransformFuture.B:pend{}:{}", pb(*tp), oe(*tok)));
                    self.hit(format!("Transform for {pk}"));
                    if mie.is_some() {
                        self.hit(format!("TransformMapInitErrFuture:pend{}:{}", pb(*tp), oe(*tok)));
                    }
                }
                self.fac(a, cfg)
            }
            F::ApplyCfg { ip, iok, .. } => self.hit(format!("apply_cfg:pend{}:{}", pb(*ip), oe(*iok))),
            F::ApplyCfgFac { a, ip, iok, .. } => {
                let ra = den(a, 0);
                self.hit(format!("ApplyConfigServiceFactoryResponse.A:{}", tag(&ra)));
                if let Ok(mut s) = ra.res {
                    let (t, v) = ref_ready_rounds(&mut s, &mut vec![]);
                    self.hit(format!("ApplyConfigServiceFactoryResponse.B:pend{}:{}", pb(t), oe(v.is_ok())));
                    if v.is_ok() {
                        self.hit(format!("ApplyConfigServiceFactoryResponse.C:pend{}:{}", pb(*ip), oe(*iok)));
                    }
                }
                self.fac(a, 0)
            }
        }
    }
    /// every (state, Pending^k before, inner outcome) combination the generators must reach
    fn required() -> Vec<String> {
        let mut v = vec![];
        let po = |name: &str, v: &mut Vec<String>| {
            for p in 0..3 {
                for o in ["ok", "err"] {
                    v.push(format!("{name}:pend{p}:{o}"));
                }
            }
        };
        for n in [
            "MapFuture",
            "MapErrFuture",
            "AndThenServiceResponse.A",
            "AndThenServiceResponse.B",
            "Apply.call(pre)",
            "Apply.call(post)",
            "fn_factory_with_config",
            "fn_factory",
            "MapServiceFuture",
            "MapErrServiceFuture",
            "MapInitErrFuture",
            "ApplyServiceFactoryResponse",
            "boxed::factory",
            "Rc<factory>",
            "Arc<factory>",
            "map_config",
            "unit_config",
            "ApplyTransformFuture.A",
            "ApplyTransformFuture.B",
            "TransformMapInitErrFuture",
            "apply_cfg",
            "ApplyConfigServiceFactoryResponse.A",
            "ApplyConfigServiceFactoryResponse.B",
            "ApplyConfigServiceFactoryResponse.C",
        ] {
            po(n, &mut v);
        }
        for w in WKS {
            for how in ["re-entered", "direct"] {
                po(&format!("reentrant({w}).call({how})"), &mut v);
            }
            for st in ["pending", "ok", "err"] {
                v.push(format!("reentrant({w}).poll_ready:{st}"));
            }
            po(&format!("wrapper({w}).call"), &mut v);
            for st in ["pending", "ok", "err"] {
                v.push(format!("wrapper({w}).poll_ready:{st}"));
            }
        }
        v.push("Apply.call(short):pend0:err".into());
        for st in ["pending", "ok", "err"] {
            for n in ["Map", "MapErr", "Apply"] {
                v.push(format!("{n}.poll_ready:{st}"));
            }
            for st2 in ["pending", "ok", "err"] {
                v.push(format!("AndThenService.poll_ready:a={st},b={st2}"));
            }
        }
        for oa in ["ok", "err"] {
            for ob in ["ok", "err"] {
                for pa in 0..3 {
                    for pb in 0..3 {
                        v.push(format!("AndThenServiceFactoryResponse:a={oa}@{pa},b={ob}@{pb}"));
                    }
                }
            }
        }
        for pk in [PK::Plain, PK::Rc, PK::Arc] {
            v.push(format!("Transform for {pk}"));
        }
        for pk in [PK::Rc, PK::Arc] {
            for how in ["re-entered", "direct"] {
                po(&format!("reentrant {pk}<factory>({how})"), &mut v);
            }
        }
        v.push("fn_service.call:ok".into());
        v.push("fn_service.call:err".into());
        v.push("fn_service.new_service(Ready)".into());
        v
    }
    fn report(&self, rep: &mut Report) {
        let req = Self::required();
        let missing: Vec<&String> = req.iter().filter(|k| !self.keys.contains_key(*k)).collect();
        let total: u64 = self.keys.values().sum();
        rep.note(&format!(
            "state-coverage: {}/{} required (future state x Pending^k before x inner outcome) combinations reached, {} distinct keys, {} visits{}",
            req.len() - missing.len(),
            req.len(),
            self.keys.len(),
            total,
            if missing.is_empty() {
                String::new()
            } else {
                format!("; not reached in this input: {}{}", missing.iter().take(8).map(|s| s.as_str()).collect::<Vec<_>>().join(" "), if missing.len() > 8 { " …" } else { "" })
            }
        ));
    }
}

// ------------------------------------------------------------------------------------------------
// generators
// ------------------------------------------------------------------------------------------------

struct G<'a> {
    rng: &'a mut Rng,
    next_leaf: u32,
    next_fleaf: u32,
    maxk: usize,
}
const WKS: [WK; 7] = [WK::Boxed, WK::RcBoxed, WK::Rc, WK::RefCell, WK::Ref, WK::Box, WK::RefMut];
const PKS: [PK; 3] = [PK::Plain, PK::Rc, PK::Arc];
const AKS: [AK; 3] = [AK::Pre, AK::Short, AK::Post];

impl<'a> G<'a> {
    fn new(rng: &'a mut Rng, maxk: usize) -> Self {
        G { rng, next_leaf: 0, next_fleaf: 60, maxk }
    }
    fn leaf(&mut self) -> S {
        let id = self.next_leaf;
        self.next_leaf += 1;
        S::Leaf {
            id,
            cp: self.rng.below(self.maxk + 1) as u32,
            cok: self.rng.chance(3, 4),
            rp: self.rng.below(self.maxk + 1) as u32,
            rok: self.rng.chance(5, 6),
        }
    }
    fn atom(&mut self) -> S {
        if self.rng.chance(1, 7) {
            S::Fn { id: 10 + self.rng.below(10) as u32, cok: self.rng.chance(3, 4) }
        } else {
            self.leaf()
        }
    }
    fn svc(&mut self, depth: usize) -> S {
        if depth == 0 {
            return self.atom();
        }
        match self.rng.below(16) {
            0 => self.atom(),
            1..=5 => S::Then(Box::new(self.svc(depth - 1)), Box::new(self.svc(depth - 1))),
            6 | 7 => S::Map(Box::new(self.svc(depth - 1)), 20 + self.rng.below(10) as u32),
            8 | 9 => S::MapErr(Box::new(self.svc(depth - 1)), 20 + self.rng.below(10) as u32),
            10 | 11 => S::Apply(Box::new(self.svc(depth - 1)), *self.rng.pick(&AKS), 40 + self.rng.below(10) as u32),
            12 | 13 => S::Wrap(*self.rng.pick(&WKS), Box::new(self.svc(depth - 1))),
            14 => {
                if self.rng.chance(1, 2) {
                    S::Mw(Box::new(self.svc(depth - 1)), 30 + self.rng.below(10) as u32)
                } else {
                    S::Reenter(*self.rng.pick(&WKS), 45 + self.rng.below(5) as u32, Box::new(self.svc(depth - 1)))
                }
            }
            _ => S::Then(Box::new(self.atom()), Box::new(self.svc(depth - 1))),
        }
    }
    fn fatom(&mut self) -> F {
        match self.rng.below(8) {
            0 => F::Fn { id: 10 + self.rng.below(10) as u32, cok: self.rng.chance(3, 4) },
            1 => F::ApplyCfg {
                s: self.svc(1),
                f: 50 + self.rng.below(10) as u32,
                ip: self.rng.below(self.maxk + 1) as u32,
                iok: self.rng.chance(4, 5),
            },
            _ => {
                let id = self.next_fleaf;
                self.next_fleaf += 1;
                let d = self.rng.below(2);
                F::Leaf {
                    id,
                    ip: self.rng.below(self.maxk + 1) as u32,
                    iok: self.rng.chance(4, 5),
                    use_cfg: self.rng.chance(3, 4),
                    s: self.svc(d),
                }
            }
        }
    }
    fn fac(&mut self, depth: usize) -> F {
        if depth == 0 {
            return self.fatom();
        }
        let k = self.rng.below(19);
        let sub = |g: &mut Self| Box::new(g.fac(depth - 1));
        match k {
            0 => self.fatom(),
            1..=4 => F::Then(sub(self), sub(self)),
            5 => F::Map(sub(self), 20 + self.rng.below(10) as u32),
            6 => F::MapErr(sub(self), 20 + self.rng.below(10) as u32),
            7 => F::MapInitErr(sub(self), 20 + self.rng.below(10) as u32),
            8 => F::Apply(sub(self), *self.rng.pick(&AKS), 40 + self.rng.below(10) as u32),
            9 | 10 => F::Transform {
                t: 30 + self.rng.below(10) as u32,
                tp: self.rng.below(self.maxk + 1) as u32,
                tok: self.rng.chance(3, 4),
                pk: *self.rng.pick(&PKS),
                mie: if self.rng.chance(1, 3) { Some(20 + self.rng.below(10) as u32) } else { None },
                a: sub(self),
            },
            11 | 12 => F::ApplyCfgFac {
                a: sub(self),
                f: 50 + self.rng.below(10) as u32,
                ip: self.rng.below(self.maxk + 1) as u32,
                iok: self.rng.chance(4, 5),
            },
            13 => F::MapConfig(sub(self), 20 + self.rng.below(10) as u32),
            14 => F::UnitConfig(sub(self)),
            15 => F::Boxed(sub(self)),
            16 => F::Rc(sub(self)),
            17 => {
                if self.rng.chance(1, 2) {
                    F::Arc(sub(self))
                } else {
                    F::Reenter(if self.rng.chance(1, 2) { PK::Rc } else { PK::Arc }, 45 + self.rng.below(5) as u32, sub(self))
                }
            }
            _ => F::Then(Box::new(self.fatom()), sub(self)),
        }
    }
}

/// all combinator shapes up to `depth` (leaf scripts are filled in later)
fn svc_shapes(depth: usize) -> Vec<S> {
    let atoms = vec![S::Leaf { id: 0, cp: 0, cok: true, rp: 0, rok: true }, S::Fn { id: 11, cok: true }];
    if depth == 0 {
        return atoms;
    }
    let sub = svc_shapes(depth - 1);
    let mut out = sub.clone();
    for x in &sub {
        let b = || Box::new(x.clone());
        out.push(S::Map(b(), 21));
        out.push(S::MapErr(b(), 22));
        for k in AKS {
            out.push(S::Apply(b(), k, 41));
        }
        for w in WKS {
            out.push(S::Wrap(w, b()));
            out.push(S::Reenter(w, 45, b()));
        }
        out.push(S::Mw(b(), 31));
    }
    for x in &sub {
        for y in &sub {
            out.push(S::Then(Box::new(x.clone()), Box::new(y.clone())));
        }
    }
    out
}

fn fac_shapes(depth: usize) -> Vec<F> {
    let l = S::Leaf { id: 0, cp: 0, cok: true, rp: 0, rok: true };
    let atoms = vec![
        F::Leaf { id: 60, ip: 0, iok: true, use_cfg: true, s: l.clone() },
        F::Leaf { id: 60, ip: 0, iok: true, use_cfg: false, s: l.clone() },
        F::Fn { id: 11, cok: true },
        F::ApplyCfg { s: l, f: 51, ip: 0, iok: true },
    ];
    if depth == 0 {
        return atoms;
    }
    let sub = fac_shapes(depth - 1);
    let mut out = sub.clone();
    for x in &sub {
        let b = || Box::new(x.clone());
        out.push(F::Map(b(), 21));
        out.push(F::MapErr(b(), 22));
        out.push(F::MapInitErr(b(), 23));
        for k in AKS {
            out.push(F::Apply(b(), k, 41));
        }
        out.push(F::Transform { t: 31, tp: 0, tok: true, pk: PK::Plain, mie: None, a: b() });
        out.push(F::Transform { t: 32, tp: 0, tok: true, pk: PK::Rc, mie: None, a: b() });
        out.push(F::Transform { t: 33, tp: 0, tok: true, pk: PK::Arc, mie: Some(25), a: b() });
        out.push(F::ApplyCfgFac { a: b(), f: 52, ip: 0, iok: true });
        out.push(F::MapConfig(b(), 24));
        out.push(F::UnitConfig(b()));
        out.push(F::Boxed(b()));
        out.push(F::Rc(b()));
        out.push(F::Arc(b()));
        out.push(F::Reenter(PK::Rc, 46, b()));
        out.push(F::Reenter(PK::Arc, 47, b()));
    }
    for x in &sub {
        for y in &sub {
            out.push(F::Then(Box::new(x.clone()), Box::new(y.clone())));
        }
    }
    out
}

/// visit every scripted parameter slot of a service shape: (kind, value) where kind 0 = leaf
fn svc_slots(s: &mut S, f: &mut dyn FnMut(&mut S)) {
    match s {
        S::Leaf { .. } | S::Fn { .. } => f(s),
        S::Map(x, _) | S::MapErr(x, _) | S::Apply(x, _, _) | S::Wrap(_, x) | S::Mw(x, _) | S::Reenter(_, _, x) => svc_slots(x, f),
        S::Then(a, b) => {
            svc_slots(a, f);
            svc_slots(b, f)
        }
    }
}
fn count_leaves(s: &S) -> usize {
    let mut v = vec![];
    leaves(s, &mut v);
    v.len()
}
/// renumber leaves 0.. and draw random scripts
fn rescript_svc(s: &mut S, rng: &mut Rng, maxk: usize, next: &mut u32) {
    svc_slots(s, &mut |x| match x {
        S::Leaf { id, cp, cok, rp, rok } => {
            *id = *next;
            *next += 1;
            *cp = rng.below(maxk + 1) as u32;
            *cok = rng.chance(3, 4);
            *rp = rng.below(maxk + 1) as u32;
            *rok = rng.chance(5, 6);
        }
        S::Fn { cok, .. } => *cok = rng.chance(3, 4),
        _ => {}
    });
}
/// renumber leaves 0.. and set the scripts from the digits of `code`: per leaf one digit in base
/// `(kk*2)^2` encoding (cp < kk, cok, rp < kk, rok)
fn script_svc_from(s: &mut S, mut code: usize, kk: usize) {
    let mut next = 0;
    svc_slots(s, &mut |x| {
        if let S::Leaf { id, cp, cok, rp, rok } = x {
            *id = next;
            next += 1;
            let base = kk * 2 * kk * 2;
            let d = code % base;
            code /= base;
            *cp = (d % kk) as u32;
            *cok = (d / kk) % 2 == 0;
            *rp = ((d / (2 * kk)) % kk) as u32;
            *rok = (d / (2 * kk * kk)) % 2 == 0;
        }
    });
}
fn rescript_fac(f: &mut F, rng: &mut Rng, maxk: usize, next: &mut u32, nextf: &mut u32) {
    match f {
        F::Leaf { id, ip, iok, s, .. } => {
            *id = *nextf;
            *nextf += 1;
            *ip = rng.below(maxk + 1) as u32;
            *iok = rng.chance(4, 5);
            rescript_svc(s, rng, maxk, next);
        }
        F::Fn { cok, .. } => *cok = rng.chance(3, 4),
        F::ApplyCfg { s, ip, iok, .. } => {
            *ip = rng.below(maxk + 1) as u32;
            *iok = rng.chance(4, 5);
            rescript_svc(s, rng, maxk, next);
        }
        F::Transform { tp, tok, a, .. } => {
            *tp = rng.below(maxk + 1) as u32;
            *tok = rng.chance(4, 5);
            rescript_fac(a, rng, maxk, next, nextf);
        }
        F::ApplyCfgFac { a, ip, iok, .. } => {
            *ip = rng.below(maxk + 1) as u32;
            *iok = rng.chance(4, 5);
            rescript_fac(a, rng, maxk, next, nextf);
        }
        F::Map(a, _) | F::MapErr(a, _) | F::MapInitErr(a, _) | F::Apply(a, _, _) | F::MapConfig(a, _) => rescript_fac(a, rng, maxk, next, nextf),
        F::UnitConfig(a) | F::Boxed(a) | F::Rc(a) | F::Arc(a) | F::Reenter(_, _, a) => rescript_fac(a, rng, maxk, next, nextf),
        F::Then(a, b) => {
            rescript_fac(a, rng, maxk, next, nextf);
            rescript_fac(b, rng, maxk, next, nextf)
        }
    }
}

fn emit_ops(w: &mut dyn Write, rng: &mut Rng, n: usize, ready_bias: usize, nleaves: usize) {
    // `ready_bias` out of 10 ops are poll_ready; always at least one call; now and then a leaf starts a
    // new readiness round (Pending again / broken) followed by a readiness poll
    let mut called = false;
    for i in 0..n {
        if nleaves > 0 && called && rng.chance(1, 6) {
            writeln!(w, "reset {} {} {}\nready", rng.below(nleaves), rng.below(3), oe(rng.chance(2, 3))).unwrap();
        }
        if called && rng.chance(1, 6) {
            writeln!(w, "call2 {} {} {}", ["rev", "drop", "fwd"][rng.below(3)], rng.below(10), rng.below(10)).unwrap();
        }
        if rng.below(10) < ready_bias && !(i + 1 == n && !called) {
            writeln!(w, "ready").unwrap();
        } else {
            writeln!(w, "call {}", rng.below(10)).unwrap();
            called = true;
        }
    }
}

/// Visit every scripted parameter of a factory shape in a fixed order.  `pick(n)` chooses a value
/// below `n` for the next parameter group; service leaves are renumbered 0.., leaf factories 60..
/// Parameter groups: leaf factory (ip, iok); transform (tp, tok); apply_cfg* closure (ip, iok);
/// service leaf (rp, rok, call script ∈ {immediately ok, one Pending then err}).
fn fac_params(f: &mut F, kk: usize, pick: &mut dyn FnMut(usize) -> usize, next: &mut u32, nextf: &mut u32) {
    fn svc_params(s: &mut S, kk: usize, pick: &mut dyn FnMut(usize) -> usize, next: &mut u32) {
        svc_slots(s, &mut |x| {
            if let S::Leaf { id, cp, cok, rp, rok } = x {
                *id = *next;
                *next += 1;
                let d = pick(kk * 2 * 2);
                *rp = (d % kk) as u32;
                *rok = (d / kk) % 2 == 0;
                let late_err = d / (2 * kk) == 1;
                *cp = late_err as u32;
                *cok = !late_err;
            }
        });
    }
    match f {
        F::Leaf { id, ip, iok, s, .. } => {
            *id = *nextf;
            *nextf += 1;
            let d = pick(kk * 2);
            *ip = (d % kk) as u32;
            *iok = d / kk == 0;
            svc_params(s, kk, pick, next);
        }
        F::Fn { .. } => {}
        F::ApplyCfg { s, ip, iok, .. } => {
            let d = pick(kk * 2);
            *ip = (d % kk) as u32;
            *iok = d / kk == 0;
            svc_params(s, kk, pick, next);
        }
        F::Transform { tp, tok, a, .. } => {
            let d = pick(kk * 2);
            *tp = (d % kk) as u32;
            *tok = d / kk == 0;
            fac_params(a, kk, pick, next, nextf);
        }
        F::ApplyCfgFac { a, ip, iok, .. } => {
            let d = pick(kk * 2);
            *ip = (d % kk) as u32;
            *iok = d / kk == 0;
            fac_params(a, kk, pick, next, nextf);
        }
        F::Map(a, _) | F::MapErr(a, _) | F::MapInitErr(a, _) | F::Apply(a, _, _) | F::MapConfig(a, _) => fac_params(a, kk, pick, next, nextf),
        F::UnitConfig(a) | F::Boxed(a) | F::Rc(a) | F::Arc(a) | F::Reenter(_, _, a) => fac_params(a, kk, pick, next, nextf),
        F::Then(a, b) => {
            fac_params(a, kk, pick, next, nextf);
            fac_params(b, kk, pick, next, nextf)
        }
    }
}
/// number of scripts of a factory shape
fn fac_script_count(f: &F, kk: usize) -> usize {
    let mut total = 1usize;
    let mut g = f.clone();
    fac_params(&mut g, kk, &mut |n| {
        total = total.saturating_mul(n);
        0
    }, &mut 0, &mut 60);
    total
}
/// the `code`-th script of a factory shape (mixed radix)
fn fac_script(f: &F, kk: usize, mut code: usize) -> F {
    let mut g = f.clone();
    fac_params(&mut g, kk, &mut |n| {
        let d = code % n;
        code /= n;
        d
    }, &mut 0, &mut 60);
    g
}

fn emit_fac_case(w: &mut dyn Write, name: &str, f: &F, cfg: u32) {
    emit_fac_case_d(w, name, f, cfg, None)
}
/// `drop_after: Some(k)`: the factory value is dropped after k Pending polls of the init future
fn emit_fac_case_d(w: &mut dyn Write, name: &str, f: &F, cfg: u32, drop_after: Option<usize>) {
    writeln!(w, "case {name}").unwrap();
    match drop_after {
        None => writeln!(w, "fac {f} {cfg}").unwrap(),
        Some(k) => writeln!(w, "facd {k} {f} {cfg}").unwrap(),
    }
    if ref_fac(f, cfg, &mut FacTrace::default()).res.is_ok() {
        writeln!(w, "ready\nready\ncall 1\nready\ncall 2").unwrap();
        let mut ids = vec![];
        fac_leaf_ids(f, &mut ids);
        if let Some(i) = ids.first() {
            writeln!(w, "reset {i} 1 {}\nready\nready", oe(cfg % 2 == 0)).unwrap();
        }
        writeln!(w, "call2 {} 1 {}", ["rev", "drop", "fwd"][cfg as usize % 3], 2 + cfg % 3).unwrap();
        // the service value dropped while its call future is in flight
        writeln!(w, "calld {} 3", (cfg as usize + drop_after.unwrap_or(0)) % 3).unwrap();
    } else {
        writeln!(w, "ready").unwrap(); // no service: rejected on both sides
    }
}

fn lf(id: u32, cp: u32, cok: bool, rp: u32, rok: bool) -> S {
    S::Leaf { id, cp, cok, rp, rok }
}
fn fl(id: u32, ip: u32, iok: bool, use_cfg: bool, s: S) -> F {
    F::Leaf { id, ip, iok, use_cfg, s }
}
fn bx<T>(x: T) -> Box<T> {
    Box::new(x)
}

/// Catalogue: for every state of every hand-written future / poll_ready of the crate, the smallest
/// trees that reach it after Pending^k (k = 0, 1, 2) with an Ok and with an Err — at readiness, at
/// construction and at call.  Emitted first.
fn gen_catalogue(w: &mut dyn Write) {
    let mut n = 0;
    let mut svc_case = |w: &mut dyn Write, tag: &str, s: &S, ops: &str| {
        n += 1;
        // the last op drops the service value while its call future is in flight
        writeln!(w, "case cat-{tag}-{n}\nsvc {s}\n{ops}\ncall2 rev 1 2\ncall2 drop 3 {}\ncall2 fwd 2 1\ncalld {} {}", n % 4, n % 3, 1 + n % 2).unwrap();
    };
    let oks = [true, false];
    for k in 0..3u32 {
        for o in oks {
            // AndThenServiceResponse A / B; AndThenService::poll_ready with either half deciding
            svc_case(w, "andthen-A", &S::Then(bx(lf(0, k, o, 0, true)), bx(lf(1, 1, true, 0, true))), "call 1\ncall 2");
            svc_case(w, "andthen-B", &S::Then(bx(lf(0, 1, true, 0, true)), bx(lf(1, k, o, 0, true))), "call 1\ncall 2");
            svc_case(w, "andthen-AB", &S::Then(bx(lf(0, k, true, 0, true)), bx(lf(1, k, o, 0, true))), "call 1");
            svc_case(w, "andthen-ready-a", &S::Then(bx(lf(0, 0, true, k, o)), bx(lf(1, 0, true, 1, true))), "ready\nready\nready\nready\ncall 1");
            svc_case(w, "andthen-ready-b", &S::Then(bx(lf(0, 0, true, 1, true)), bx(lf(1, 0, true, k, o))), "ready\nready\nready\nready\ncall 1");
            svc_case(w, "andthen-ready-ab", &S::Then(bx(lf(0, 0, true, k, !o)), bx(lf(1, 0, true, 2 - k, o))), "ready\nready\nready\nready");
            svc_case(w, "andthen-second-round", &S::Then(bx(S::Wrap(WK::Boxed, bx(lf(0, 0, true, k, true)))), bx(S::Wrap(WK::RcBoxed, bx(lf(1, 0, true, 0, true))))), if o { "ready\nready\nready\ncall 1\nreset 1 1 ok\nready\nready\nreset 0 0 err\nready" } else { "ready\nready\nready\ncall 1\nreset 0 2 ok\nready\nreset 1 0 err\nready\nready" });
            svc_case(w, "andthen-fn", &S::Then(bx(lf(0, k, o, k, true)), bx(S::Fn { id: 11, cok: o })), "ready\ncall 1");
            svc_case(w, "fn-andthen", &S::Then(bx(S::Fn { id: 11, cok: o }), bx(lf(0, k, !o, k, o))), "ready\ncall 1\nready\nready");
            let leaf = lf(0, k, o, k, !o);
            let leaf2 = lf(0, k, !o, k, o);
            for l in [&leaf, &leaf2] {
                // first readiness round, calls, then a second round: Pending again, then broken
                let ops = "ready\nready\nready\ncall 1\ncall 2\nreset 0 1 ok\nready\nready\nreset 0 0 err\nready\nreset 0 2 err\nready";
                svc_case(w, "map", &S::Map(bx(l.clone()), 21), ops);
                svc_case(w, "maperr", &S::MapErr(bx(l.clone()), 22), ops);
                for ak in AKS {
                    svc_case(w, "apply", &S::Apply(bx(l.clone()), ak, 41), ops);
                }
                for wk in WKS {
                    svc_case(w, "wrap", &S::Wrap(wk, bx(l.clone())), ops);
                    // the wrapper re-entered from inside its own call / poll_ready, every other op with
                    // a Ref of the RefCell held by the caller; behind Rc, under and_then(map(..))
                    svc_case(w, "reenter", &S::Reenter(wk, 45, bx(l.clone())), "ready\nready\nready\ncall 1\ncall 2\ncall 3\nready\ncall 5\ncall 4");
                    svc_case(w, "reenter-rc", &S::Then(bx(S::Map(bx(S::Wrap(WK::Rc, bx(S::Reenter(wk, 45, bx(l.clone()))))), 21)), bx(S::Fn { id: 11, cok: true })), "call 3\ncall 1\nready\ncall 2\nready");
                    svc_case(w, "reenter-nested", &S::Reenter(wk, 45, bx(S::Reenter(WK::RefCell, 46, bx(l.clone())))), "call 1\nready\ncall 3");
                }
                svc_case(w, "mw", &S::Mw(bx(l.clone()), 31), ops);
                svc_case(w, "maperr-maperr", &S::MapErr(bx(S::MapErr(bx(l.clone()), 22)), 23), ops);
            }
        }
    }
    let mut fac_case = |w: &mut dyn Write, tag: &str, f: &F, cfg: u32| {
        n += 1;
        emit_fac_case(w, &format!("cat-{tag}-{n}"), f, cfg);
        // the same with the factory value dropped right after new_service / after the k-th Pending
        for k in 0..3 {
            n += 1;
            emit_fac_case_d(w, &format!("cat-{tag}-dropped{k}-{n}"), f, cfg, Some(k));
        }
    };
    for k in 0..3u32 {
        for o in oks {
            // apply_cfg_factory: A (inner factory), B (readiness gate), C (configure future)
            for k2 in 0..3u32 {
                for o2 in oks {
                    let inner = fl(60, k2, o2, true, lf(0, 1, true, k, o));
                    fac_case(w, "applycfgfac-B", &F::ApplyCfgFac { a: bx(inner.clone()), f: 52, ip: 0, iok: true }, 5);
                    fac_case(w, "applycfgfac-C", &F::ApplyCfgFac { a: bx(fl(60, k2, true, false, lf(0, 0, true, k2, true))), f: 52, ip: k, iok: o }, 5);
                    fac_case(w, "applycfgfac-BC", &F::ApplyCfgFac { a: bx(fl(60, 0, true, true, lf(0, 0, !o2, k, o))), f: 52, ip: k2, iok: o2 }, 5);
                    // apply(Transform): A (inner factory), B (transform future), map_init_err on the transform
                    for (i, pk) in PKS.iter().enumerate() {
                        let t = F::Transform { t: 31, tp: k, tok: o, pk: *pk, mie: if (k2 as usize + i) % 2 == 0 { None } else { Some(23) }, a: bx(fl(60, k2, o2, i != 1, lf(0, k, true, k2, true))) };
                        fac_case(w, "transform", &t, 7);
                    }
                    fac_case(w, "transformerr", &F::Transform { t: 31, tp: k, tok: o, pk: PK::Plain, mie: Some(23), a: bx(fl(60, k2, o2, true, lf(0, 0, true, 0, true))) }, 7);
                    // and_then of factories: every order of completion / failure of the two halves
                    fac_case(w, "fthen", &F::Then(bx(fl(60, k, o, true, lf(0, 0, true, 1, true))), bx(fl(61, k2, o2, k % 2 == 0, lf(1, 1, true, 0, true)))), 3);
                }
            }
            // gate over a two-leaf service: conjunction, the first error, Pending halves
            fac_case(w, "applycfgfac-then", &F::ApplyCfgFac { a: bx(fl(60, 1, true, true, S::Then(bx(lf(0, 0, true, k, o)), bx(lf(1, 0, true, 2 - k, !o))))), f: 52, ip: 1, iok: true }, 5);
            fac_case(w, "applycfgfac-maperr", &F::ApplyCfgFac { a: bx(F::MapErr(bx(fl(60, 0, true, true, S::MapErr(bx(lf(0, 0, true, k, o)), 22))), 24)), f: 52, ip: 0, iok: true }, 5);
            fac_case(w, "applycfgfac-nested", &F::ApplyCfgFac { a: bx(F::ApplyCfgFac { a: bx(fl(60, 0, true, true, lf(0, 0, true, k, o))), f: 53, ip: k, iok: true }), f: 52, ip: 0, iok: o }, 5);
            fac_case(w, "applycfg", &F::ApplyCfg { s: lf(0, k, o, k, true), f: 51, ip: k, iok: o }, 4);
            fac_case(w, "applycfg", &F::ApplyCfg { s: lf(0, 0, true, k, o), f: 51, ip: 2 - k, iok: !o }, 4);
            // the single-state factory futures and the transparent factory adapters
            for use_cfg in [true, false] {
                let inner = || bx(fl(60, k, o, use_cfg, lf(0, k, !o, k, true)));
                fac_case(w, "fleaf", &inner(), 6);
                fac_case(w, "fmap", &F::Map(inner(), 21), 6);
                fac_case(w, "fmaperr", &F::MapErr(inner(), 22), 6);
                fac_case(w, "fmapiniterr", &F::MapInitErr(inner(), 23), 6);
                for ak in AKS {
                    fac_case(w, "fapply", &F::Apply(inner(), ak, 41), 6);
                }
                fac_case(w, "mapconfig", &F::MapConfig(inner(), 24), 6);
                fac_case(w, "unitconfig", &F::UnitConfig(inner()), 6);
                fac_case(w, "fboxed", &F::Boxed(inner()), 6);
                fac_case(w, "frc", &F::Rc(inner()), 6);
                fac_case(w, "farc", &F::Arc(inner()), 6);
                for (pk, cfg) in [(PK::Rc, 6), (PK::Rc, 7), (PK::Arc, 4), (PK::Arc, 5)] {
                    fac_case(w, "freenter", &F::Reenter(pk, 46, inner()), cfg);
                }
                fac_case(w, "freenter-svc", &F::Reenter(PK::Rc, 46, bx(F::Rc(bx(fl(60, k, true, use_cfg, S::Reenter(WK::RefCell, 45, bx(lf(0, k, o, k, true)))))))), 3);
                fac_case(w, "fthen-ffn", &F::Then(inner(), bx(F::Fn { id: 11, cok: o })), 6);
            }
        }
    }
}

fn gen(a: &Args) {
    let mut w = out_writer(&a.output);
    let thorough = a.tier == "thorough";
    let c12 = a.prop == "C12";
    let mut rng = Rng::new(a.seed.wrapping_mul(2).wrapping_add(c12 as u64));
    let ready_bias = if c12 { 6 } else { 4 };

    // (0) malformed / not-applicable ops: must be rejected identically
    writeln!(w, "case malformed").unwrap();
    for l in [
        "ready",
        "call 1",
        "svc (leaf 0 0 ok 0)",
        "svc (then (leaf 0 0 ok 0 ok) (leaf 0 1 ok 0 ok))",
        "svc (leaf 1234567 0 ok 0 ok)",
        "svc (leaf 0 0 ok 0 ok) x",
        "svc (frob (leaf 0 0 ok 0 ok))",
        "svc (refmut)",
        "svc (reenter refcell (leaf 0 0 ok 0 ok))",
        "svc (reenter frob 45 (leaf 0 0 ok 0 ok))",
        "fac (freenter plain 46 (ffn 11 ok)) 1",
        "fac (freenter rc (ffn 11 ok)) 1",
        "fac (fleaf 60 0 ok cfg (leaf 0 0 ok 0 ok))",
        "fac (fthen (fleaf 60 0 ok cfg (leaf 0 0 ok 0 ok)) (fleaf 61 0 ok cfg (leaf 0 0 ok 0 ok))) 1",
        "fac (transform 31 0 ok weird (ffn 11 ok)) 1",
        "fac (transformerr 31 0 ok plain (ffn 11 ok)) 1",
        "fac (transform 31 0 ok arc 23 (ffn 11 ok)) 1",
        "fac (farc) 1",
        "svc (leaf 0 1 ok 1 ok)",
        "ready x",
        "call",
        "call 1 2",
        "call x",
        "ready",
        "call 3",
        "reset 0 1 ok",
        "calld 0 1",
        "call2 rev 1 2",
        "call2 sideways 1 2",
        "facd x (ffn 11 ok) 1",
        "facd 0 (ffn 11 ok)",
        "calld 1",
        "frobnicate",
    ] {
        writeln!(w, "{l}").unwrap();
    }

    // (1) the catalogue of states x Pending^k x outcome
    gen_catalogue(&mut w);

    // (2) every factory shape up to depth 1 with EVERY script (k <= 1 quick / k <= 2 thorough) while
    //     the shape has at most `cap` scripts, otherwise random draws
    let kk = if thorough { 3 } else { 2 };
    let cap = if thorough { 6000 } else { 1100 };
    let mut n = 0;
    for sh in &fac_shapes(1) {
        let total = fac_script_count(sh, kk);
        let full = total <= cap;
        for d in 0..(if full { total } else { cap / 4 }) {
            let f = fac_script(sh, kk, if full { d } else { rng.below(total) });
            n += 1;
            emit_fac_case(&mut w, &format!("fx-{n}"), &f, 1 + (d % 7) as u32);
            n += 1;
            emit_fac_case_d(&mut w, &format!("fx-{n}"), &f, 1 + (d % 7) as u32, Some(d % 3));
        }
    }

    // (3) every service combinator shape up to depth 2; for shapes with at most two scripted leaves
    //     every script with k <= 1 (quick) / k <= 2 (thorough), otherwise random draws
    let shapes = svc_shapes(2);
    let draws = if thorough { 6 } else { 2 };
    let mut n = 0;
    for sh in &shapes {
        let nl = count_leaves(sh);
        let full = nl <= 2;
        let total = if full { (kk * 2 * kk * 2usize).pow(nl as u32) } else { draws };
        for d in 0..total {
            let mut s = sh.clone();
            if full {
                script_svc_from(&mut s, d, kk);
            } else {
                let mut nx = 0;
                rescript_svc(&mut s, &mut rng, kk - 1, &mut nx);
            }
            n += 1;
            writeln!(w, "case shape-{n}").unwrap();
            writeln!(w, "svc {s}").unwrap();
            if full {
                // deterministic op list: readiness polls, a call, settle, another call, then a second
                // readiness round of leaf 0 (Pending again, then ok / broken)
                writeln!(w, "ready\nready\ncall 1\nready\ncall 2").unwrap();
                if nl > 0 {
                    writeln!(w, "reset 0 1 {}\nready\nready", oe(d % 2 == 0)).unwrap();
                }
                writeln!(w, "call2 {} {} {}", ["rev", "drop", "fwd"][d % 3], 1 + d % 4, 2 + d % 3).unwrap();
                writeln!(w, "calld {} 3", d % 3).unwrap();
            } else {
                emit_ops(&mut w, &mut rng, 5, ready_bias, nl);
            }
        }
    }

    // (4) every factory shape of depth 2, random scripts
    let fshapes = fac_shapes(2);
    let fdraws = if thorough { 3 } else { 1 };
    let mut n = 0;
    for sh in &fshapes {
        for _ in 0..fdraws {
            let mut f = sh.clone();
            let (mut nx, mut nf) = (0, 60);
            rescript_fac(&mut f, &mut rng, 2, &mut nx, &mut nf);
            n += 1;
            let cfg = rng.below(10) as u32;
            writeln!(w, "case fshape-{n}").unwrap();
            if n % 2 == 0 {
                writeln!(w, "facd {} {f} {cfg}", (n / 2) % 3).unwrap();
            } else {
                writeln!(w, "fac {f} {cfg}").unwrap();
            }
            if ref_fac(&f, cfg, &mut FacTrace::default()).res.is_ok() {
                emit_ops(&mut w, &mut rng, 4, ready_bias, nx as usize);
            } else {
                writeln!(w, "ready").unwrap(); // no service: rejected on both sides
            }
        }
    }

    // (5) random trees of depth ≤ 3
    let cases = if thorough { 20000 } else { 2000 };
    for c in 0..cases {
        let mut g = G::new(&mut rng, 2);
        let nleaves;
        if c % 2 == 1 {
            let d = g.rng.range(1, 3);
            let f = g.fac(d);
            nleaves = g.next_leaf as usize;
            let cfg = g.rng.below(10) as u32;
            writeln!(w, "case rfac-{c}").unwrap();
            if c % 3 == 1 {
                writeln!(w, "facd {} {f} {cfg}", g.rng.below(3)).unwrap();
            } else {
                writeln!(w, "fac {f} {cfg}").unwrap();
            }
            if ref_fac(&f, cfg, &mut FacTrace::default()).res.is_err() {
                continue;
            }
        } else {
            let d = g.rng.range(1, 3);
            let s = g.svc(d);
            nleaves = g.next_leaf as usize;
            writeln!(w, "case rsvc-{c}").unwrap();
            writeln!(w, "svc {s}").unwrap();
        }
        let nops = rng.range(2, 7);
        emit_ops(&mut w, &mut rng, nops, ready_bias, nleaves);
        if rng.chance(1, 3) {
            writeln!(w, "calld {} {}", rng.below(3), rng.below(10)).unwrap();
        }
    }
    w.flush().unwrap();
}

fn main() {
    let a = parse_args();
    match a.cmd.as_str() {
        "gen" => gen(&a),
        "run" => run(&a),
        _ => {
            eprintln!("usage: svc gen|run …");
            std::process::exit(2)
        }
    }
}
