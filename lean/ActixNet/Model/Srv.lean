import ActixNet.Generated.Src
/-!
# Model: the actix-server accept thread, its workers' shared state, listeners and the waker queue

Transcribed from actix-server/src/accept.rs (`poll_with`, `handle_waker`, `process_timeout`,
`deregister_all`, `send_connection`, `accept_one`, `accept`, `accept_all`, `set_next`, `remove_next`)
and the shared-memory side of worker.rs (`WorkerCounterGuard::drop`, `Counter`), with the
arithmetic kernels taken from `ActixNet.Src` (generated from the Rust source on every run).

* Shared-memory actions of *other* threads (`EnvAct`: client connects, worker receive / finish /
  wake-up push / death, server commands, worker replacement, clock, fault injection) may run at
  every **yield point** of the accept program: before each waker-queue pop, before each listener
  `accept()`, between `send` and the counter increment (window W1), and between iterations. The
  schedule `sched` is a list of chunks, consumed one chunk per yield point, so a theorem quantified
  over all `sched` covers every interleaving at the granularity of the shared-memory actions.
* Every Rust panic / endless loop that matters is a sticky `fault` (never a totalised default).
* The availability bitset is abstracted to `avail : Nat → Bool`; `Lemmas/Avail.lean` proves that the
  generated 4×u128 implementation refines exactly this for indices < 512; an index ≥ 512 is a fault.
-/
namespace ActixNet.Srv
open ActixNet

/-- a connection: (id, listener token) -/
abbrev Conn := Nat × Nat

inductive Kind where | tcp | uds
deriving DecidableEq, Repr

inductive Fault where
  | panicIndex      -- `self.handles[self.next]` out of bounds
  | panicRem        -- `% self.handles.len()` with no handle
  | panicOffset     -- worker index ≥ 512
  | spinAcceptOne   -- `accept_one` never terminates
  | spinWaker
  | spinAccept
deriving DecidableEq, Repr

inductive Interest where
  | workerAvail (idx : Nat)
  | worker (wid : Nat)
  | pause | resume | stop
deriving DecidableEq, Repr

/-- injected result of the next `accept()` system call -/
inductive AccErr where
  | kind (k : Src.ErrorKind)   -- an `io::Error` of this kind
  | emfile                      -- raw OS error EMFILE (kind `Uncategorized`)
deriving DecidableEq, Repr

/-- one worker incarnation (the worker-side ends of a handle pair + the shared counter) -/
structure Wk where
  idx : Nat
  alive : Bool := true          -- the receiving end of the connection channel exists
  queue : List Conn := []       -- sent, not yet received
  inflight : List Conn := []    -- received, guard alive
  c : Nat                       -- raw value of the shared atomic counter
  tokp : Nat := 0               -- `dec()` returned true, wake-up not yet pushed (window W2)
deriving Repr

structure Lst where
  kind : Kind := .tcp
  registered : Bool := true
  deadline : Option Nat := none   -- absolute time (ms) at which the back-off ends
  backlog : List Conn := []
  edge : Bool := false            -- a readiness event is pending (edge-triggered epoll)
  linked : Bool := true           -- uds: the socket file exists
  inject : List AccErr := []
deriving Repr

inductive EnvAct where
  | connect (l : Nat)
  | recv (w : Nat)
  | finish (w : Nat) (c : Option Nat)  -- drop the guard of connection id `c` (`none`: the oldest): dec, maybe create a token
  | push (w : Nat)                -- push one pending wake-up token of `w`
  | finishNow (w : Nat) (c : Option Nat) -- `finish` immediately followed by its `push` (guard drop without a W2 window)
  | die (w : Nat)
  | cmd (i : Interest)            -- pause / resume / stop pushed by the server future
  | restart (idx : Nat)           -- server handled `WorkerFaulted idx`: new incarnation + `Worker` interest
  | advance (ms : Nat)
  | inject (l : Nat) (e : AccErr)
deriving Repr

/-- result of one environment action, as observed by the harness -/
inductive ActRes where
  | ok
  | bad                               -- not enabled: rejected, state unchanged
  | conn (c : Conn)                   -- connect / recv
  | refused                           -- connect to an unlinked uds path
  | none                              -- recv on an empty queue
  | dec (crossed : Bool)              -- finish
  | wid (w : Nat)                     -- restart
deriving DecidableEq, Repr

structure Cfg where
  limit : Nat
  nIdx : Nat          -- number of worker indices (`ServerBuilder::workers`)
deriving Repr

structure St where
  wk : Nat → Wk
  nWk : Nat
  lst : Nat → Lst
  nLst : Nat
  handles : List Nat := []      -- incarnation ids, in `Accept::handles` order
  next : Nat := 0
  avail : Nat → Bool := fun _ => false
  paused : Bool := false
  timeout : Option Nat := none  -- `Accept::timeout` (a duration, ms)
  exited : Bool := false
  wq : List Interest := []
  pend : Option Nat := none     -- W1: incarnation whose `inc` is outstanding
  faultedLog : List Nat := []   -- `WorkerFaulted idx` sent to the server, in order
  restarted : Nat := 0          -- how many of them the server has handled
  dropped : List Conn := []     -- dropped because no worker was left
  finished : List Conn := []
  dispatched : List (Conn × Nat) := []   -- successful sends, newest last
  acts : List ActRes := []      -- results of the environment actions, newest last
  now : Nat := 0
  nextConn : Nat := 0
  sched : List (List EnvAct) := []
  yields : Nat := 0
  fault : Option Fault := none
  /-- ghost: an *injected* `WouldBlock` was consumed (the kernel never reports one while connections are queued) -/
  spuriousWB : Bool := false

def upd {α : Type} (f : Nat → α) (i : Nat) (v : α) : Nat → α := fun j => if j = i then v else f j

def anyAvail (cfg : Cfg) (s : St) : Bool := (List.range cfg.nIdx).any s.avail

def setAvail (s : St) (idx : Nat) (v : Bool) : St :=
  if idx < 512 then { s with avail := upd s.avail idx v } else { s with fault := some .panicOffset }

def initWk (idx : Nat) : Wk := { idx := idx, c := Src.wcInit }

/-- state after `Accept::new_with_sockets`: every handle available, every listener registered -/
def init (cfg : Cfg) (kinds : List Kind) : St :=
  { wk := fun w => initWk w,
    nWk := cfg.nIdx,
    lst := fun l => { kind := kinds.getD l .tcp },
    nLst := kinds.length,
    handles := List.range cfg.nIdx,
    avail := fun i => decide (i < cfg.nIdx) }

/-! ### kernel-level listener operations (mio / epoll as probed: DESIGN §11.7) -/

def register (s : St) (l : Nat) : St :=
  let L := s.lst l
  if L.registered then s
  else { s with lst := upd s.lst l { L with registered := true, edge := !L.backlog.isEmpty } }

/-- `MioListener::deregister` (the socket file of a uds listener is left alone, see fix for F2) -/
def deregister (s : St) (l : Nat) : St :=
  let L := s.lst l
  { s with lst := upd s.lst l { L with registered := false, edge := false } }

def setTimeout (s : St) (d : Nat) : St :=
  match s.timeout with
  | some t => if t > d then { s with timeout := some d } else s
  | none => { s with timeout := some d }

def deregisterAllFrom (s : St) : List Nat → St
  | [] => s
  | l :: ls =>
    let d := (s.lst l).deadline
    let s1 := { s with lst := upd s.lst l { s.lst l with deadline := none } }
    let s2 := if d.isNone then deregister s1 l else s1
    deregisterAllFrom s2 ls

def deregisterAll (s : St) : St := deregisterAllFrom s (List.range s.nLst)

/-- the `Resume` arm: `info.timeout = None; self.register_logged(info)` for every socket -/
def registerAllFrom (s : St) : List Nat → St
  | [] => s
  | l :: ls =>
    let s1 := { s with lst := upd s.lst l { s.lst l with deadline := none } }
    registerAllFrom (register s1 l) ls

/-! ### environment actions -/

def pushWq (s : St) (i : Interest) : St := { s with wq := s.wq ++ [i] }

def pickInflight (W : Wk) : Option Nat → Option Conn
  | none => W.inflight.head?
  | some cid => W.inflight.find? (fun c => c.1 = cid)

def envStep (cfg : Cfg) (s : St) : EnvAct → St × ActRes
  | .connect l =>
    if l < s.nLst then
      let L := s.lst l
      if L.kind = .uds ∧ ¬ L.linked then (s, .refused)
      else
        let c : Conn := (s.nextConn, l)
        let L' : Lst := { L with backlog := L.backlog ++ [c], edge := L.edge || L.registered }
        ({ s with nextConn := s.nextConn + 1, lst := upd s.lst l L' }, .conn c)
    else (s, .bad)
  | .recv w =>
    if w < s.nWk then
      let W := s.wk w
      if W.alive then
        match W.queue with
        | [] => (s, .none)
        | c :: q => ({ s with wk := upd s.wk w { W with queue := q, inflight := W.inflight ++ [c] } }, .conn c)
      else (s, .bad)
    else (s, .bad)
  | .finish w cid =>
    if w < s.nWk then
      let W := s.wk w
      match pickInflight W cid with
      | none => (s, .bad)
      | some c =>
        let crossed := Src.wcDecCrossed W.c cfg.limit
        let W' : Wk := { W with inflight := W.inflight.eraseP (fun x => x.1 == c.1), c := W.c - 1, tokp := if crossed then W.tokp + 1 else W.tokp }
        ({ s with wk := upd s.wk w W', finished := s.finished ++ [c] }, .dec crossed)
    else (s, .bad)
  | .push w =>
    if w < s.nWk then
      let W := s.wk w
      if W.tokp > 0 then
        (pushWq { s with wk := upd s.wk w { W with tokp := W.tokp - 1 } } (.workerAvail W.idx), .ok)
      else (s, .bad)
    else (s, .bad)
  | .finishNow w cid =>
    if w < s.nWk then
      let W := s.wk w
      match pickInflight W cid with
      | none => (s, .bad)
      | some c =>
        let crossed := Src.wcDecCrossed W.c cfg.limit
        let W' : Wk := { W with inflight := W.inflight.eraseP (fun x => x.1 == c.1), c := W.c - 1 }
        let s1 := { s with wk := upd s.wk w W', finished := s.finished ++ [c] }
        (if crossed then pushWq s1 (.workerAvail W.idx) else s1, .dec crossed)
    else (s, .bad)
  | .die w =>
    if w < s.nWk then
      let W := s.wk w
      if W.alive then
        ({ s with wk := upd s.wk w { W with alive := false, queue := [] }, dropped := s.dropped ++ W.queue }, .ok)
      else (s, .bad)
    else (s, .bad)
  | .cmd i =>
    match i with
    | .pause | .resume | .stop => (pushWq s i, .ok)
    | _ => (s, .bad)
  | .restart idx =>
    if s.restarted < s.faultedLog.length ∧ s.faultedLog.getD s.restarted 0 = idx then
      let w := s.nWk
      (pushWq { s with wk := upd s.wk w (initWk idx), nWk := s.nWk + 1, restarted := s.restarted + 1 } (.worker w),
       .wid w)
    else (s, .bad)
  | .advance ms => ({ s with now := s.now + ms }, .ok)
  | .inject l e =>
    if l < s.nLst then
      ({ s with lst := upd s.lst l { s.lst l with inject := (s.lst l).inject ++ [e] } }, .ok)
    else (s, .bad)

def runEnv (cfg : Cfg) (s : St) : List EnvAct → St
  | [] => s
  | a :: as =>
    let (s', r) := envStep cfg s a
    runEnv cfg { s' with acts := s'.acts ++ [r] } as

/-- a yield point of the accept thread: the next chunk of the schedule runs here -/
def yieldPt (cfg : Cfg) (s : St) : St :=
  match s.sched with
  | [] => { s with yields := s.yields + 1 }
  | ch :: rest => runEnv cfg { s with sched := rest, yields := s.yields + 1 } ch

/-! ### the accept thread's program -/

def setNext (s : St) : St :=
  if s.handles.length = 0 then { s with fault := some .panicRem }
  else { s with next := (s.next + 1) % s.handles.length }

/-- `Vec::swap_remove(i)`: the last element takes the place of the removed one -/
def swapRemove (l : List Nat) (i : Nat) : List Nat := (l.set i (l.getLast?.getD 0)).dropLast

/-- `remove_next`: `swap_remove(self.next)`, report the fault, clear the bit -/
def removeNext (s : St) (w : Nat) : St :=
  let idx := (s.wk w).idx
  setAvail { s with handles := swapRemove s.handles s.next, faultedLog := s.faultedLog ++ [idx] } idx false

/-- the `Err(conn)` arm of `send_connection`: the worker is gone -/
def sendFail (s : St) (w : Nat) (c : Conn) : St × Bool :=
  let s1 := removeNext s w
  if s1.handles.isEmpty then ({ s1 with dropped := s1.dropped ++ [c] }, true)
  else if s1.handles.length ≤ s1.next then ({ s1 with next := 0 }, false)
  else (s1, false)

/-- `WakerInterest::Worker(handle)`: `set_available(handle.idx(), true); handles.push(handle)` -/
def addWorker (s : St) (w : Nat) : St :=
  let s2 := setAvail s (s.wk w).idx true
  { s2 with handles := s2.handles ++ [w] }

/-- `next.send(conn)` succeeded: the connection is in the worker's channel, the increment is outstanding -/
def sendPrim (s : St) (w : Nat) (c : Conn) : St :=
  { s with wk := upd s.wk w { s.wk w with queue := (s.wk w).queue ++ [c] }, pend := some w, dispatched := s.dispatched ++ [(c, w)] }

/-- `if !next.inc_counter() { self.avail.set_available(idx, false) }` -/
def incPrim (cfg : Cfg) (s : St) (w idx : Nat) : St :=
  let s3 := { s with wk := upd s.wk w { s.wk w with c := (s.wk w).c + 1 }, pend := none }
  if Src.wcIncStill (s.wk w).c cfg.limit = true then s3 else setAvail s3 idx false

/-- `send_connection`: `(state, true)` = `Ok(())`, `(state, false)` = `Err(conn)` -/
def sendConnection (cfg : Cfg) (s : St) (c : Conn) : St × Bool :=
  if s.fault.isSome then (s, true) else
  match s.handles[s.next]? with
  | none => ({ s with fault := some .panicIndex }, true)
  | some w =>
    if (s.wk w).alive then
      -- send, window W1 (yield point), inc, set_next
      (setNext (incPrim cfg (yieldPt cfg (sendPrim s w c)) w (s.wk w).idx), true)
    else sendFail s w c

/-- the `while let Err(c) = self.send_connection(conn)` loop of `accept_one` -/
def forcedSend (cfg : Cfg) : Nat → St → Conn → St
  | 0, s, _ => { s with fault := some .spinAcceptOne }
  | fuel + 1, s, c =>
    let (s1, ok) := sendConnection cfg s c
    if ok then s1 else forcedSend cfg fuel s1 c

def acceptOne (cfg : Cfg) : Nat → St → Conn → St
  | 0, s, _ => { s with fault := some .spinAcceptOne }
  | fuel + 1, s, c =>
    if s.fault.isSome then s else
    match s.handles[s.next]? with
    | none => { s with fault := some .panicIndex }
    | some w =>
      let idx := (s.wk w).idx
      if s.avail idx then
        let (s1, ok) := sendConnection cfg s c
        if ok then s1 else acceptOne cfg fuel s1 c
      else
        let s1 := setNext (setAvail s idx false)
        if !anyAvail cfg s1 then forcedSend cfg (s1.handles.length + 1) s1 c
        else acceptOne cfg fuel s1 c

/-- enough for the worst case: between two removals of dead handles the scan passes every remaining handle at most once -/
def acceptOneFuel (s : St) : Nat := (s.handles.length + 1) * (s.handles.length + 1) + 1

/-- `info.lst.accept()` -/
inductive AccRes where
  | conn (c : Conn) | wouldBlock | connErr | otherErr

def acceptSys (s : St) (l : Nat) : St × AccRes :=
  let L := s.lst l
  match L.inject with
  | e :: es =>
    let s1 := { s with lst := upd s.lst l { L with inject := es } }
    match e with
    | .kind k =>
      if k == Src.ErrorKind.WouldBlock then ({ s1 with spuriousWB := true }, .wouldBlock)
      else if Src.connectionError k then (s1, .connErr) else (s1, .otherErr)
    | .emfile => (s1, .otherErr)
  | [] =>
    match L.backlog with
    | [] => (s, .wouldBlock)
    | c :: b => ({ s with lst := upd s.lst l { L with backlog := b } }, .conn c)

/-- `Accept::accept(sockets, token)` -/
def accept (cfg : Cfg) : Nat → St → Nat → St
  | 0, s, _ => { s with fault := some .spinAccept }
  | fuel + 1, s, l =>
    if s.fault.isSome then s else
    if !anyAvail cfg s then s else
    let s0 := yieldPt cfg s
    let (s1, r) := acceptSys s0 l
    match r with
    | .conn c => accept cfg fuel (acceptOne cfg (acceptOneFuel s1) s1 c) l
    | .wouldBlock => s1
    | .connErr => accept cfg fuel s1 l
    | .otherErr =>
      let s2 := deregister s1 l
      let s3 := { s2 with lst := upd s2.lst l { s2.lst l with deadline := some (s2.now + Src.backoffMs) } }
      setTimeout s3 Src.pollTimeoutMs

def schedSize (s : St) : Nat := (s.sched.map List.length).sum

/-- enough fuel for one `accept` call: everything queued on the listener plus everything the
schedule can still add -/
def acceptFuel (s : St) (l : Nat) : Nat :=
  (s.lst l).backlog.length + (s.lst l).inject.length + schedSize s + s.sched.length + 2

def acceptAllFrom (cfg : Cfg) (s : St) : List Nat → St
  | [] => s
  | l :: ls => acceptAllFrom cfg (accept cfg (acceptFuel s l) s l) ls

def acceptAll (cfg : Cfg) (s : St) : St := acceptAllFrom cfg s (List.range s.nLst)

/-- `MioListener::cleanup` on every socket when the accept loop stops: uds socket files are removed -/
def cleanupAll (s : St) : St :=
  { s with lst := fun l => if l < s.nLst ∧ (s.lst l).kind = .uds then { s.lst l with linked := false } else s.lst l }

def hasHandleIdx (s : St) (idx : Nat) : Bool := s.handles.any (fun w => (s.wk w).idx = idx)

/-- `WorkerAvailable(idx)`: availability is only recorded for an index that (still) has a handle
(the fix for the stale-notification defect) -/
def wakePrim (s : St) (idx : Nat) : St := if hasHandleIdx s idx then setAvail s idx true else s

/-- `handle_waker`: `(state, exit)` -/
def handleWaker (cfg : Cfg) : Nat → St → St × Bool
  | 0, s => ({ s with fault := some .spinWaker }, false)
  | fuel + 1, s =>
    if s.fault.isSome then (s, false) else
    let s0 := yieldPt cfg s
    match s0.wq with
    | [] => (s0, false)
    | i :: q =>
      let s1 := { s0 with wq := q }
      match i with
      | .workerAvail idx =>
        let s2 := wakePrim s1 idx
        let s3 := if !s2.paused then acceptAll cfg s2 else s2
        handleWaker cfg fuel s3
      | .worker w =>
        let s3 := addWorker s1 w
        let s4 := if !s3.paused then acceptAll cfg s3 else s3
        handleWaker cfg fuel s4
      | .pause =>
        let s2 := if !s1.paused then deregisterAll { s1 with paused := true } else s1
        handleWaker cfg fuel s2
      | .resume =>
        let s2 := if s1.paused then
            acceptAll cfg (registerAllFrom { s1 with paused := false } (List.range s1.nLst))
          else s1
        handleWaker cfg fuel s2
      | .stop =>
        let s2 := if !s1.paused then deregisterAll s1 else s1
        (cleanupAll s2, true)

def wakerFuel (s : St) : Nat := s.wq.length + schedSize s + s.sched.length + 2

def processTimeoutFrom (s : St) (now : Nat) : List Nat → St
  | [] => s
  | l :: ls =>
    match (s.lst l).deadline with
    | none => processTimeoutFrom s now ls
    | some inst =>
      let s1 := { s with lst := upd s.lst l { s.lst l with deadline := none } }
      let s2 :=
        if now < inst then
          setTimeout { s1 with lst := upd s1.lst l { s1.lst l with deadline := some inst } } (inst - now)
        else if !s1.paused then register s1 l
        else s1
      processTimeoutFrom s2 now ls

def processTimeout (s : St) : St :=
  match s.timeout with
  | none => s
  | some _ => processTimeoutFrom { s with timeout := none } s.now (List.range s.nLst)

/-- an event of one `mio::Poll::poll` batch -/
inductive Ev where
  | waker
  | listener (l : Nat)
deriving DecidableEq, Repr

def pollEvents (cfg : Cfg) : St → List Ev → St × Bool
  | s, [] => (s, false)
  | s, e :: es =>
    match e with
    | .waker =>
      let (s1, exit) := handleWaker cfg (wakerFuel s) s
      if exit then (s1, true) else pollEvents cfg s1 es
    | .listener l => pollEvents cfg (accept cfg (acceptFuel s l) s l) es

/-- the listener events epoll reports now (edge-triggered), in token order -/
def readyListeners (s : St) : List Nat :=
  (List.range s.nLst).filter (fun l => (s.lst l).registered && (s.lst l).edge && !(s.lst l).backlog.isEmpty)

def clearEdges (s : St) : St :=
  { s with lst := fun l => if l < s.nLst then { s.lst l with edge := false } else s.lst l }

/-- end of an iteration: `return` when `Stop` was processed, otherwise `process_timeout` -/
def pollFinish (r : St × Bool) : St :=
  if r.2 then { r.1 with exited := true, sched := [] } else { (processTimeout r.1) with sched := [] }

/-- One iteration of `poll_with` on the batch `order` (the waker event is always present in the
stepped driver). `sched` is installed first: its chunks run at the yield points, in order. -/
def poll (cfg : Cfg) (s : St) (order : List Ev) (sched : List (List EnvAct)) : St :=
  if s.exited || s.fault.isSome then s else
  pollFinish (pollEvents cfg (clearEdges { s with sched := sched, yields := 0 }) order)

/-- an operation of the stepped system -/
inductive Op where
  | env (a : EnvAct)
  | poll (order : List Ev) (sched : List (List EnvAct))
  /-- W2: finish `c` on `w`; if `dec` crossed the limit, one full accept iteration runs before the
  wake-up is pushed -/
  | finishW2 (w : Nat) (c : Option Nat) (order : List Ev)

def step (cfg : Cfg) (s : St) : Op → St
  | .env a => runEnv cfg s [a]
  | .poll order sched => poll cfg s order sched
  | .finishW2 w c order =>
    let (s1, r) := envStep cfg s (.finish w c)
    let s1 := { s1 with acts := s1.acts ++ [r] }
    match r with
    | .dec true => runEnv cfg (poll cfg s1 order []) [.push w]
    | _ => s1

def run (cfg : Cfg) (s : St) : List Op → St
  | [] => s
  | op :: ops => run cfg (step cfg s op) ops

end ActixNet.Srv
