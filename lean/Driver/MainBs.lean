import Driver.Util
import Driver.Bs
/-! `amodel-bs`: the `bs` engine alone (one executable per engine, so that a model that no longer
builds only affects the properties decided with it). Accepts and ignores the engine name. -/
open Driver

def main (_args : List String) : IO UInt32 := do
  let stdin ← IO.getStdin
  let stdout ← IO.getStdout
  loop stdin stdout Driver.Bs.step Driver.Bs.init
  return 0
