import ActixNet.Lemmas.SrvFuel
import ActixNet.Lemmas.SrvBits
/-!
# C08 — a faulted worker is detected, bypassed and replaced; its connection is re-routed

Over `ActixNet.Srv` with worker deaths (`die`) and replacement (`restart`) allowed at every yield
point.  First the per-function theorems, then the whole-history statements: no panic, no spin, no
fault of any kind, for every history (`accept_thread_never_fails`).
-/
namespace ActixNet.C08
open ActixNet ActixNet.Srv

/-- **re-routing**: the connection whose dispatch discovers a dead worker is not lost with it — when
`accept_one` returns (without fault) the same connection has been sent to a worker that was alive at
the moment of the send, or was dropped because no worker handle was left at all. -/
theorem reroute (cfg : Cfg) (fuel : Nat) (s : St) (c : Conn) (hnf : (acceptOne cfg fuel s c).fault = none) :
    PlacedOnce s (acceptOne cfg fuel s c) c := acceptOne_log cfg fuel s c hnf

/-- **the dead worker receives nothing further**: a `send_connection` that finds the worker's channel
closed dispatches nothing, removes exactly that handle and reports the fault -/
theorem dead_worker_gets_nothing (cfg : Cfg) (s : St) (c : Conn) (w : Nat)
    (hnf : (sendConnection cfg s c).1.fault = none)
    (hw : s.handles[s.next]? = some w) (hdead : (s.wk w).alive = false) :
    (sendConnection cfg s c).1.dispatched = s.dispatched ∧
    (sendConnection cfg s c).1.handles.length < s.handles.length := by
  rcases sendConnection_log cfg s c hnf with ⟨_, ⟨w', hw', hal, _⟩ | ⟨hd, hh, _⟩⟩ | ⟨_, hd, hl, _⟩
  · rw [hw] at hw'; cases hw'; rw [hdead] at hal; cases hal
  · refine ⟨hd, ?_⟩
    rw [hh]
    obtain ⟨hlt, _⟩ := List.getElem?_eq_some_iff.mp hw
    simp only [List.length_nil]; omega
  · exact ⟨hd, hl⟩

/-- detection: removing the faulted handle reports its index to the server exactly once and clears
its availability bit -/
theorem fault_reported_once (s : St) (w : Nat) (h512 : (s.wk w).idx < 512) :
    (removeNext s w).faultedLog = s.faultedLog ++ [(s.wk w).idx] ∧
    (removeNext s w).avail (s.wk w).idx = false ∧
    (removeNext s w).handles.length = s.handles.length - 1 := by
  simp [removeNext, setAvail, h512, upd, swapRemove_length]

/-- the server starts a replacement only for a reported fault, one per report, with the same index;
the new handle reaches the accept thread as a `Worker` interest -/
theorem restart_creates_replacement (cfg : Cfg) (s : St) (idx : Nat)
    (h : s.restarted < s.faultedLog.length ∧ s.faultedLog.getD s.restarted 0 = idx) :
    (envStep cfg s (.restart idx)).2 = .wid s.nWk ∧
    ((envStep cfg s (.restart idx)).1.wk s.nWk).idx = idx ∧
    ((envStep cfg s (.restart idx)).1.wk s.nWk).alive = true ∧
    (envStep cfg s (.restart idx)).1.wq = s.wq ++ [.worker s.nWk] ∧
    (envStep cfg s (.restart idx)).1.restarted = s.restarted + 1 := by
  simp only [envStep]; rw [if_pos h]; simp [pushWq, initWk]

theorem restart_rejected_without_fault (cfg : Cfg) (s : St) (idx : Nat)
    (h : ¬ (s.restarted < s.faultedLog.length ∧ s.faultedLog.getD s.restarted 0 = idx)) :
    envStep cfg s (.restart idx) = (s, .bad) := by
  simp only [envStep]; rw [if_neg h]

/-- **the replacement rejoins the rotation**: processing the `Worker` interest appends the handle,
marks its index available and (unless paused) at once runs the accept loop on every listener -/
theorem replacement_rejoins (cfg : Cfg) (fuel : Nat) (s : St) (w : Nat) (q : List Interest)
    (hnf : s.fault = none) (hq : (yieldPt cfg s).wq = .worker w :: q) (hp : (yieldPt cfg s).paused = false)
    (h512 : ((yieldPt cfg s).wk w).idx < 512) :
    handleWaker cfg (fuel + 1) s =
      handleWaker cfg fuel (acceptAll cfg
        { yieldPt cfg s with wq := q, avail := upd (yieldPt cfg s).avail ((yieldPt cfg s).wk w).idx true,
                             handles := (yieldPt cfg s).handles ++ [w] }) := by
  simp [handleWaker, hnf, hq, hp, addWorker, setAvail, h512]

/-- with a single worker, service resumes once the replacement is up: the accept loop that runs when
the replacement joins dispatches to it (its bit is set and it is the only handle) -/
theorem single_worker_replacement_serves (cfg : Cfg) (s : St) (w : Nat) (c : Conn)
    (hnf : s.fault = none) (hh : s.handles = [w]) (hn : s.next = 0) (hal : (s.wk w).alive = true)
    (hav : s.avail (s.wk w).idx = true) :
    (acceptOne cfg 1 s c).dispatched = s.dispatched ++ [(c, w)] := by
  simp only [acceptOne, hnf, Option.isSome_none, Bool.false_eq_true, ↓reduceIte, hh, hn,
    List.getElem?_cons_zero, hav]
  have : (sendConnection cfg s c) =
      (setNext (incPrim cfg (yieldPt cfg (sendPrim s w c)) w (s.wk w).idx), true) := by
    simp [sendConnection, hnf, hh, hn, hal]
  rw [this]
  simp only [↓reduceIte]
  rw [setNext_dispatched, incPrim_dispatched, yieldPt_dispatched]
  rfl

/-- **late availability notifications are harmless** (the defect fixed in /repo): a `WorkerAvailable`
for an index whose handle was removed does not set any availability bit -/
theorem stale_wakeup_ignored (cfg : Cfg) (fuel : Nat) (s : St) (idx : Nat) (q : List Interest)
    (hnf : s.fault = none) (hq : (yieldPt cfg s).wq = .workerAvail idx :: q)
    (hno : hasHandleIdx { yieldPt cfg s with wq := q } idx = false) :
    wakePrim { yieldPt cfg s with wq := q } idx = { yieldPt cfg s with wq := q } ∧
    handleWaker cfg (fuel + 1) s =
      handleWaker cfg fuel (if !(yieldPt cfg s).paused then acceptAll cfg { yieldPt cfg s with wq := q }
                            else { yieldPt cfg s with wq := q }) := by
  have hwp : wakePrim { yieldPt cfg s with wq := q } idx = { yieldPt cfg s with wq := q } := by
    unfold wakePrim; rw [hno]; rfl
  refine ⟨hwp, ?_⟩
  simp only [handleWaker, hnf, Option.isSome_none, Bool.false_eq_true, ↓reduceIte, hq, hwp]

/-- `accept_one` can only fault by index panic when there is no handle at all, and the accept loop
calls it only while some availability bit is set; with the invariant "a set bit has a handle"
(`stale_wakeup_ignored`, `fault_reported_once`, `replacement_rejoins` maintain it) this is
unreachable.  Stated here for one call: if some handle exists at `next`, the first step of
`accept_one` does not panic. -/
theorem accept_one_no_index_panic (cfg : Cfg) (fuel : Nat) (s : St) (c : Conn) (w : Nat)
    (hnf : s.fault = none) (hw : s.handles[s.next]? = some w) (hav : s.avail (s.wk w).idx = true)
    (hal : (s.wk w).alive = true) (hlen : s.handles.length ≠ 0) (h512 : (s.wk w).idx < 512) :
    (acceptOne cfg (fuel + 1) s c).fault = (yieldPt cfg (sendPrim s w c)).fault := by
  have hsc : sendConnection cfg s c = (setNext (incPrim cfg (yieldPt cfg (sendPrim s w c)) w (s.wk w).idx), true) := by
    simp [sendConnection, hnf, hw, hal]
  simp only [acceptOne, hnf, Option.isSome_none, Bool.false_eq_true, ↓reduceIte, hw, hav, hsc]
  have hl : (incPrim cfg (yieldPt cfg (sendPrim s w c)) w (s.wk w).idx).handles = s.handles := by
    have h1 : (yieldPt cfg (sendPrim s w c)).handles = s.handles := by rw [yieldPt_handles]; rfl
    unfold incPrim; simp only; split
    · exact h1
    · unfold setAvail; split <;> exact h1
  unfold setNext
  rw [hl, if_neg hlen]
  simp only
  unfold incPrim; simp only; split
  · rfl
  · simp [setAvail, h512]

/-- **The accept thread never panics** — for EVERY history: any sequence of operations, any schedule
of client / worker / server actions at every yield point, any number of worker deaths (idle,
partially loaded, saturated), any teardown order of their connections, late availability
notifications and late replacement handles, any limit and 1..512 workers.  None of the three panic
sites of accept.rs (`self.handles[self.next]` out of bounds, `% self.handles.len()` with no handle,
`Availability::offset` beyond 512) is reachable. -/
theorem accept_thread_never_panics (cfg : Cfg) (ok : CfgOk cfg) (kinds : List Kind) (ops : List Op) :
    (run cfg (init cfg kinds) ops).fault ≠ some .panicIndex ∧
    (run cfg (init cfg kinds) ops).fault ≠ some .panicRem ∧
    (run cfg (init cfg kinds) ops).fault ≠ some .panicOffset :=
  (run_np ok ops _ (init_np cfg kinds)).nopanic

/-- **`accept_one` never spins** — for EVERY history (same quantifier as above): its search for an
available worker handle terminates; the failure mode of the stale-notification defect (all handles
unavailable while a bit without a handle stays set) is unreachable. -/
theorem accept_one_never_spins (cfg : Cfg) (ok : CfgOk cfg) (kinds : List Kind) (ops : List Op) :
    (run cfg (init cfg kinds) ops).fault ≠ some .spinAcceptOne :=
  run_nospinAO ok ops _ (init_np cfg kinds) (by unfold NoSpinAO; simp [init])

/-- **The accept thread never fails at all** — for EVERY history: besides the panics and the
`accept_one` search, the `loop { accept() }` of `Accept::accept` and the `while let Some(..) =
pop_front()` of `handle_waker` terminate for every finite amount of concurrent activity (every
schedule): each round uses up a queued connection / injected error / interest or a piece of the
schedule (`Lemmas/SrvFuel.lean`).  Hence no sticky fault of the model is ever raised. -/
theorem accept_thread_never_fails (cfg : Cfg) (ok : CfgOk cfg) (kinds : List Kind) (ops : List Op) :
    (run cfg (init cfg kinds) ops).fault = none :=
  run_fault_none ok kinds ops

/-- in every reachable state every set availability bit belongs to a worker that has a handle (so
`accept_one`'s search always finds it) — the invariant whose violation was the defect fixed in /repo -/
theorem available_bit_has_handle (cfg : Cfg) (ok : CfgOk cfg) (kinds : List Kind) (ops : List Op) (i : Nat)
    (h : (run cfg (init cfg kinds) ops).avail i = true) :
    ∃ w ∈ (run cfg (init cfg kinds) ops).handles, ((run cfg (init cfg kinds) ops).wk w).idx = i :=
  (run_np ok ops _ (init_np cfg kinds)).sound.bit i h

/-- at most one handle per worker index, in every reachable state; more precisely every index is
accounted for exactly once among handles, replacement handles in flight and unhandled fault reports
(so a replacement keeps its predecessor's index and never coexists with it) -/
theorem one_handle_per_index (cfg : Cfg) (ok : CfgOk cfg) (kinds : List Kind) (ops : List Op) :
    ((run cfg (init cfg kinds) ops).handles.map fun w => ((run cfg (init cfg kinds) ops).wk w).idx).Nodup :=
  handles_nodup (run_np ok ops _ (init_np cfg kinds)).sound

/-- `next` always indexes an existing handle while there is one -/
theorem next_in_range (cfg : Cfg) (ok : CfgOk cfg) (kinds : List Kind) (ops : List Op)
    (h : (run cfg (init cfg kinds) ops).handles ≠ []) :
    (run cfg (init cfg kinds) ops).next < (run cfg (init cfg kinds) ops).handles.length :=
  (run_np ok ops _ (init_np cfg kinds)).sound.next1 h

/-! ### availability bits are only ever set by a notification -/

/-- **An iteration of the accept loop that processes no notification never turns an availability bit ON.**
Nothing is queued for the waker when the iteration begins (`s.wq = []`) and no other thread pushes while it
runs (empty schedule): for every batch of events, however many connections the iteration dispatches, every
bit set afterwards was set before.

Why `s.wq = []` is all that is needed: the accept thread writes the bitset in `send_connection`
(`if !inc_counter() { set_available(idx, false) }`), in `remove_next` and in the skip of `accept_one` (both
`set_available(idx, false)`), and in exactly two arms of `handle_waker` — `WorkerAvailable(idx)` and
`Worker(handle)` (`add_worker`), the only writers of `true`; both are reached only by popping an interest off
the waker queue, and no other thread writes the bitset (`yieldPt_avail`).  With nothing queued `handle_waker`
pops nothing and returns.

Meaning for the code: `send_connection` may only CLEAR the bit of the worker it sent to — also when the
dispatch is forced (`while let Err(c) = self.send_connection(c)`, every bit clear after a worker fault).
seed14 C08-28 wrote `set_available(idx, inc_counter())`; above the limit `inc` answers true (the counter only
answers false when it reaches the limit exactly), so a survivor that a forced dispatch had pushed over its
limit was marked available again and was given still more.  Harness oracle: "an iteration that processed no
notification must not turn a bit on". -/
theorem quiet_iteration_turns_no_bit_on (cfg : Cfg) (s : St) (order : List Ev) (hq : s.wq = []) :
    ∀ i, (poll cfg s order []).avail i = true → s.avail i = true :=
  poll_off cfg s order (by rw [hq]; exact Cmds.nil)

/-- the same with commands queued: pause / resume / stop may be waiting (resume even runs the accept loop on
every listener) — only the two notifications `WorkerAvailable` / `Worker` can turn a bit on -/
theorem iteration_without_notification_turns_no_bit_on (cfg : Cfg) (s : St) (order : List Ev)
    (hq : ∀ i ∈ s.wq, i = .pause ∨ i = .resume ∨ i = .stop) :
    ∀ i, (poll cfg s order []).avail i = true → s.avail i = true :=
  poll_off cfg s order (fun i hi => by rcases hq i hi with h | h | h <;> subst h <;> rfl)

/-- a dispatch never turns a bit on — for EVERY schedule: one run of `Accept::accept` on a listener (any number
of connections, window W1 of each open to every other thread, worker deaths, forced dispatch) -/
theorem dispatch_turns_no_bit_on (cfg : Cfg) (fuel : Nat) (s : St) (l : Nat) :
    ∀ i, (accept cfg fuel s l).avail i = true → s.avail i = true :=
  accept_off cfg fuel s l

/-- **the shape the harness oracle judges**: worker incarnation `w` (index `(wk w).idx`), its bit clear before
the quiet iteration, its shared counter (biased by one: `Src.wcTotal`) showing it full afterwards — its bit is
clear afterwards.  (The fullness premise is the oracle's filter; the conclusion does not depend on it.) -/
theorem quiet_iteration_keeps_full_worker_unavailable (cfg : Cfg) (s : St) (order : List Ev) (hq : s.wq = [])
    (w : Nat) (hclear : s.avail ((poll cfg s order []).wk w).idx = false)
    (_hfull : cfg.limit ≤ Src.wcTotal ((poll cfg s order []).wk w).c) :
    (poll cfg s order []).avail ((poll cfg s order []).wk w).idx = false := by
  cases h : (poll cfg s order []).avail ((poll cfg s order []).wk w).idx with
  | false => rfl
  | true => rw [quiet_iteration_turns_no_bit_on cfg s order hq _ h] at hclear; cases hclear

/-- reachable form — the quiet iteration as the last operation of ANY history (worker deaths, replacements,
late notifications already handled, …): it ends without fault and has turned no bit on -/
theorem quiet_iteration_turns_no_bit_on_reachable (cfg : Cfg) (ok : CfgOk cfg) (kinds : List Kind) (ops : List Op)
    (order : List Ev) (hq : (run cfg (init cfg kinds) ops).wq = []) :
    (run cfg (init cfg kinds) (ops ++ [.poll order []])).fault = none ∧
    ∀ i, (run cfg (init cfg kinds) (ops ++ [.poll order []])).avail i = true →
      (run cfg (init cfg kinds) ops).avail i = true := by
  refine ⟨run_fault_none ok kinds _, ?_⟩
  rw [run_cat]
  exact quiet_iteration_turns_no_bit_on cfg _ order hq

/-! ### Non-vacuity: one fault, re-route, replacement; and two faults with a late notification -/
def cfg1 : Cfg := { limit := 1, nIdx := 2 }
-- both workers saturated; worker 0 idle-dies later, worker 1 dies saturated; its connection finishes
-- AFTER its handle was removed (late WorkerAvailable): nothing panics, the bit stays clear
def twoFaults : List Op :=
  [.env (.connect 0), .env (.connect 0), .poll [.listener 0, .waker] [],
   .env (.recv 0), .env (.recv 1), .env (.finishNow 0 none), .poll [.waker] [],
   .env (.die 0), .env (.die 1), .env (.connect 0), .poll [.listener 0, .waker] [],
   .env (.finishNow 1 none), .env (.connect 0), .poll [.waker, .listener 0] [],
   .env (.restart 0), .poll [.waker] [], .env (.connect 0), .poll [.listener 0, .waker] []]
example : (run cfg1 (init cfg1 [.tcp]) twoFaults).fault = none ∧
    (run cfg1 (init cfg1 [.tcp]) twoFaults).faultedLog = [0, 1] ∧
    ((run cfg1 (init cfg1 [.tcp]) twoFaults).handles.map fun w => ((run cfg1 (init cfg1 [.tcp]) twoFaults).wk w).idx) = [0] := by
  decide

/-! ### Non-vacuity of the per-function theorems: each hypothesis set is met by a reachable state -/
-- a reachable state in which the worker under the cursor is dead and undiscovered
def sDead : St := run cfg1 (init cfg1 [.tcp]) [.env (.die 0)]
example : (sendConnection cfg1 sDead ⟨7, 0⟩).1.fault = none ∧ sDead.handles[sDead.next]? = some 0 ∧
    (sDead.wk 0).alive = false := by decide
-- … and the conclusion is not trivial there: the handle list really shrinks from 2 to 1
example : sDead.handles.length = 2 ∧ (sendConnection cfg1 sDead ⟨7, 0⟩).1.handles.length = 1 := by decide

-- a reachable state with a reported, not yet replaced fault (hypothesis of `restart_creates_replacement`)
def sReported : St := run cfg1 (init cfg1 [.tcp]) [.env (.die 0), .env (.connect 0), .poll [.listener 0] []]
example : sReported.restarted < sReported.faultedLog.length ∧ sReported.faultedLog.getD sReported.restarted 0 = 0 := by decide
-- … and one without (hypothesis of `restart_rejected_without_fault`)
example : ¬ ((init cfg1 [.tcp]).restarted < (init cfg1 [.tcp]).faultedLog.length ∧
    (init cfg1 [.tcp]).faultedLog.getD (init cfg1 [.tcp]).restarted 0 = 0) := by decide

-- the replacement's handle is at the head of the waker queue (hypotheses of `replacement_rejoins`)
def sRepl : St := (envStep cfg1 sReported (.restart 0)).1
example : sRepl.fault = none ∧ (yieldPt cfg1 sRepl).wq = [.worker 2] ∧ (yieldPt cfg1 sRepl).paused = false ∧
    ((yieldPt cfg1 sRepl).wk 2).idx < 512 := by decide

-- a late availability notification for a removed handle (hypotheses of `stale_wakeup_ignored`)
def sLate : St := run cfg1 (init cfg1 [.tcp])
  [.env (.connect 0), .env (.connect 0), .poll [.listener 0, .waker] [], .env (.recv 0), .env (.recv 1),
   .env (.finishNow 0 none), .poll [.waker] [], .env (.die 0), .env (.die 1), .env (.connect 0),
   .poll [.listener 0, .waker] [], .env (.finishNow 1 none)]
example : sLate.fault = none ∧ (yieldPt cfg1 sLate).wq = [.workerAvail 1] ∧
    hasHandleIdx { yieldPt cfg1 sLate with wq := [] } 1 = false := by decide

-- a single live worker under the cursor, marked available (hypotheses of `single_worker_replacement_serves`)
def cfgOne : Cfg := { limit := 1, nIdx := 1 }
def sOne : St := run cfgOne (init cfgOne [.tcp])
  [.env (.die 0), .env (.connect 0), .poll [.listener 0] [], .env (.restart 0), .poll [.waker] []]
example : sOne.fault = none ∧ sOne.handles = [1] ∧ sOne.next = 0 ∧ (sOne.wk 1).alive = true ∧
    sOne.avail (sOne.wk 1).idx = true := by decide
-- the first step of `accept_one` in the initial state (hypotheses of `accept_one_no_index_panic`)
example : (init cfg1 [.tcp]).fault = none ∧ (init cfg1 [.tcp]).handles[(init cfg1 [.tcp]).next]? = some 0 ∧
    (init cfg1 [.tcp]).avail ((init cfg1 [.tcp]).wk 0).idx = true ∧ ((init cfg1 [.tcp]).wk 0).alive = true ∧
    (init cfg1 [.tcp]).handles.length ≠ 0 := by decide

-- a forced dispatch onto a saturated survivor (hypotheses of `quiet_iteration_turns_no_bit_on` and of its
-- oracle-shaped corollary): limit 1, worker 0 holds one connection (bit clear), worker 1 dies while marked
-- available, nothing is queued for the waker, a second connection waits in the backlog
def sSurvivor : St := run cfg1 (init cfg1 [.tcp])
  [.env (.connect 0), .poll [.listener 0, .waker] [], .env (.die 1), .env (.connect 0)]
example : sSurvivor.wq = [] ∧ sSurvivor.avail 0 = false ∧ sSurvivor.avail 1 = true ∧
    Src.wcTotal (sSurvivor.wk 0).c = 1 ∧ sSurvivor.handles = [0, 1] ∧ sSurvivor.next = 1 := by decide
-- the quiet iteration finds worker 1 dead, reports it, and forces the connection onto worker 0 (every bit is
-- clear): worker 0 now holds 2 > limit and its bit is still clear, no fault
example : (poll cfg1 sSurvivor [.listener 0, .waker] []).fault = none ∧
    (poll cfg1 sSurvivor [.listener 0, .waker] []).faultedLog = [1] ∧
    (poll cfg1 sSurvivor [.listener 0, .waker] []).dispatched = [((0, 0), 0), ((1, 0), 0)] ∧
    cfg1.limit ≤ Src.wcTotal ((poll cfg1 sSurvivor [.listener 0, .waker] []).wk 0).c ∧
    Src.wcTotal ((poll cfg1 sSurvivor [.listener 0, .waker] []).wk 0).c = 2 ∧
    (poll cfg1 sSurvivor [.listener 0, .waker] []).avail 0 = false ∧
    (poll cfg1 sSurvivor [.listener 0, .waker] []).avail 1 = false := by decide
-- the hypothesis `wq = []` is not idle: with a notification queued the iteration does turn a bit on
def sNotified : St := run cfg1 (init cfg1 [.tcp])
  [.env (.connect 0), .poll [.listener 0, .waker] [], .env (.recv 0), .env (.finishNow 0 none)]
example : sNotified.wq = [.workerAvail 0] ∧ sNotified.avail 0 = false ∧
    (poll cfg1 sNotified [.waker] []).avail 0 = true := by decide
-- commands only (hypothesis of `iteration_without_notification_turns_no_bit_on`)
example : ∀ i ∈ (run cfg1 sSurvivor [.env (.cmd .pause), .env (.cmd .resume)]).wq, i = .pause ∨ i = .resume ∨ i = .stop := by decide

end ActixNet.C08
