//! Engine `codec` (C13, C14, C15): the real `actix_codec::{Framed, LinesCodec, BytesCodec}` driven
//! through the line protocol.
use std::{
    cell::RefCell,
    collections::VecDeque,
    io::{self, Write},
    pin::Pin,
    rc::Rc,
    sync::{
        atomic::{AtomicUsize, Ordering},
        Arc,
    },
    task::{Context, Poll, Wake, Waker},
};

use actix_codec::{AsyncRead, AsyncWrite, BytesCodec, Decoder, Encoder, Framed, FramedParts, LinesCodec, ReadBuf};
use bytes::{Buf, BufMut, Bytes, BytesMut};
use futures_core::Stream;
use vh::*;

// ------------------------------------------------------------------------------------------------
// C15: LinesCodec on a contiguous buffer
// ------------------------------------------------------------------------------------------------

thread_local! {
    /// `prop=Cxx` in a case header: the oracle failures of that case are reported under that property
    /// (the glue cases of C15 run `LinesCodec` through the `Framed` ops of C13 / C14)
    static PROP_OVERRIDE: std::cell::Cell<Option<&'static str>> = const { std::cell::Cell::new(None) };
}

thread_local! {
    /// `vec=1` in the case header: the scripted transport of the case reports `is_write_vectored()`
    static VECTORED: std::cell::Cell<bool> = const { std::cell::Cell::new(false) };
}

fn t3x(rep: &mut Report, prop: &str, msg: &str) {
    let p = PROP_OVERRIDE.with(|o| o.get()).unwrap_or(prop);
    rep.t3(p, msg);
}

/// alphabet of the exhaustive enumeration: `a`, CR, LF, the two bytes of `é`, and an invalid byte
const LINES_ALPHABET: [u8; 6] = [b'a', b'\r', b'\n', 0xC3, 0xA9, 0xFF];

/// everything some notion of "line end" or "white space" could treat specially — and which
/// `LinesCodec` must leave alone: only LF ends a line, only one CR directly before it is stripped.
/// ASCII white space and controls, DEL, NEL / NBSP (C2 85, C2 A0) and their bare continuation bytes,
/// LS / PS (E2 80 A8/A9), ideographic space, BOM / ZWNBSP, zero-width space, information separators
const SPECIALS: [&[u8]; 22] = [
    b" ", b"\t", b"\x0b", b"\x0c", b"\0", b"\x7f", b"\xc2\x85", b"\xc2\xa0", b"\xe2\x80\xa8", b"\xe2\x80\xa9", b"\x85", b"\xa0", b"\xe3\x80\x80",
    b"\xef\xbb\xbf", b"\xe2\x80\x8b", b"\x1c", b"\x1d", b"\x1e", b"\x1f", b"\x08", b"\x1a", b"\x1b",
];

/// units of the wide sweep: a letter, CR, LF, an invalid byte and every special
fn wide_units() -> Vec<&'static [u8]> {
    let mut v: Vec<&'static [u8]> = vec![b"a", b"\r", b"\n", b"\xff"];
    v.extend(SPECIALS.iter().copied());
    v
}

/// directed line-end shapes around one special: the special directly before LF / CR LF / end of file /
/// alone on the line / doubled / after and before a CR
fn special_shapes(text: &[u8], sp: &[u8]) -> Vec<Vec<u8>> {
    let cat = |parts: &[&[u8]]| parts.concat();
    vec![
        cat(&[text, sp, b"\n", b"b"]),
        cat(&[text, sp, b"\r\n", b"b\n"]),
        cat(&[text, sp]),
        cat(&[sp, b"\n"]),
        cat(&[text, sp, sp, b"\n"]),
        cat(&[text, b"\r", sp, b"\n"]),
        cat(&[text, sp, b"\r"]),
        cat(&[text, b"\n", sp, text, b"\n"]),
    ]
}

/// every proper prefix of a 2-, 3- and 4-byte character (smallest, typical and largest lead bytes):
/// a line that ENDS in one of them is invalid UTF-8 — an error item, not "need more data"
const TRUNCATED: [&[u8]; 14] = [
    b"\xc2", b"\xc3", b"\xdf", b"\xe0", b"\xe0\xa0", b"\xe2", b"\xe2\x82", b"\xed\x9f", b"\xef\xbf", b"\xf0", b"\xf0\x9f", b"\xf0\x9f\x98", b"\xf4", b"\xf4\x8f\xbf",
];

/// lines ending in a truncated character: after no text / ASCII / multi-byte text, directly before LF,
/// CR LF, end of file, a CR at end of file, and with another line behind
fn truncated_streams() -> Vec<(usize, usize, Vec<u8>)> {
    let mut out = vec![];
    for tr in TRUNCATED {
        for text in [&b""[..], b"ab", "é".as_bytes(), "a€😀".as_bytes()] {
            for end in [&b"\n"[..], b"\r\n", b"", b"\r", b"\nb\n", b"\r\nc"] {
                out.push((text.len(), text.len() + tr.len(), [text, tr, end].concat()));
            }
        }
    }
    out
}

fn all_strings(alphabet: &[u8], max_len: usize, f: &mut dyn FnMut(&[u8])) {
    fn rec(alphabet: &[u8], cur: &mut Vec<u8>, max_len: usize, f: &mut dyn FnMut(&[u8])) {
        f(cur);
        if cur.len() == max_len {
            return;
        }
        for &b in alphabet {
            cur.push(b);
            rec(alphabet, cur, max_len, f);
            cur.pop();
        }
    }
    rec(alphabet, &mut vec![], max_len, f);
}

#[derive(Clone, PartialEq, Debug)]
enum LineItem {
    Ok(Vec<u8>),
    Err,
}

fn item_list(xs: &[LineItem]) -> String {
    let v: Vec<String> = xs
        .iter()
        .map(|x| match x {
            LineItem::Ok(s) => format!("ok:{}", hex(s)),
            LineItem::Err => "err".to_string(),
        })
        .collect();
    format!("[{}]", v.join(","))
}

/// the independent reference: split at every LF, strip one trailing CR, validate; the final
/// unterminated segment (after stripping one CR) is yielded iff non-empty
fn lines_reference(s: &[u8]) -> Vec<LineItem> {
    fn strip(l: &[u8]) -> &[u8] {
        l.strip_suffix(b"\r").unwrap_or(l)
    }
    fn validate(l: &[u8]) -> LineItem {
        match std::str::from_utf8(l) {
            Ok(_) => LineItem::Ok(l.to_vec()),
            Err(_) => LineItem::Err,
        }
    }
    let mut segs: Vec<&[u8]> = s.split(|&b| b == b'\n').collect();
    let tail = segs.pop().unwrap_or(&[]);
    let mut out: Vec<LineItem> = segs.into_iter().map(|l| validate(strip(l))).collect();
    if !strip(tail).is_empty() {
        out.push(validate(strip(tail)));
    }
    out
}

/// real `LinesCodec`: `decode` until `None`, then `decode_eof` until `None`
fn lines_run(bytes: &[u8], rep: &mut Report) -> String {
    let mut codec = LinesCodec::default();
    let mut src = BytesMut::from(bytes);
    let mut dec = vec![];
    let mut eof = vec![];
    let mut spin = false;
    let conv = |r: std::io::Result<Option<String>>, rep: &mut Report| -> Option<LineItem> {
        match r {
            Ok(None) => None,
            Ok(Some(s)) => Some(LineItem::Ok(s.into_bytes())),
            Err(e) => {
                if e.kind() != std::io::ErrorKind::InvalidData {
                    t3x(rep, "C15", &format!("decode error of kind {:?}, expected InvalidData", e.kind()));
                }
                Some(LineItem::Err)
            }
        }
    };
    let bound = bytes.len() + 3;
    loop {
        if dec.len() > bound {
            spin = true;
            break;
        }
        match conv(codec.decode(&mut src), rep) {
            None => break,
            Some(x) => dec.push(x),
        }
    }
    let mid = hex(&src);
    loop {
        if eof.len() > bound {
            spin = true;
            break;
        }
        match conv(codec.decode_eof(&mut src), rep) {
            None => break,
            Some(x) => eof.push(x),
        }
    }
    // T3: decoder output vs the independent reference splitter
    let mut all = dec.clone();
    all.extend(eof.iter().cloned());
    let want = lines_reference(bytes);
    if all != want || spin {
        t3x(rep, 
            "C15",
            &format!("LinesCodec on {} yields {}{} but the reference splitter says {}", hex(bytes), item_list(&all), if spin { " (no end)" } else { "" }, item_list(&want)),
        );
    }
    format!("dec={} mid={} eof={} rest={}{}", item_list(&dec), mid, item_list(&eof), hex(&src), if spin { " spin" } else { "" })
}

fn lines_encode_all(items: &[String], rep: &mut Report) -> BytesMut {
    let mut codec = LinesCodec::default();
    let mut dst = BytesMut::new();
    let mut want: Vec<u8> = vec![];
    for it in items {
        if let Err(e) = codec.encode(it.as_str(), &mut dst) {
            t3x(rep, "C15", &format!("encode failed: {e}"));
        }
        want.extend_from_slice(it.as_bytes());
        want.push(b'\n');
    }
    if dst[..] != want[..] {
        t3x(rep, "C15", &format!("encode of {:?} gives {} expected item+LF each: {}", items, hex(&dst), hex(&want)));
    }
    dst
}

/// ONE real `LinesCodec` instance, the buffer growing piece by piece: `decode` until `None` after
/// every piece (not after the last one when `direct`: `decode_eof` then meets complete lines itself),
/// at the end `decode_eof` until `None`
fn lines_chunks(pieces: &[Vec<u8>], direct: bool, rep: &mut Report) -> String {
    let whole: Vec<u8> = pieces.concat();
    let what = format!("{} {}", if direct { "chunkse" } else { "chunks" }, pieces.iter().map(|p| hex(p)).collect::<Vec<_>>().join(" "));
    let r = catch(|| {
        let mut codec = LinesCodec::default();
        let mut src = BytesMut::new();
        let mut all: Vec<LineItem> = vec![];
        let mut shown: Vec<String> = vec![];
        let mut bad_kind = false;
        let bound = whole.len() + 3;
        let mut conv = |r: std::io::Result<Option<String>>| -> Option<LineItem> {
            match r {
                Ok(None) => None,
                Ok(Some(s)) => Some(LineItem::Ok(s.into_bytes())),
                Err(e) => {
                    bad_kind |= e.kind() != std::io::ErrorKind::InvalidData;
                    Some(LineItem::Err)
                }
            }
        };
        let mut spin = false;
        for (i, p) in pieces.iter().enumerate() {
            src.extend_from_slice(p);
            if direct && i + 1 == pieces.len() {
                shown.push("-".into());
                break;
            }
            let mut here = vec![];
            while let Some(x) = conv(codec.decode(&mut src)) {
                here.push(x);
                if here.len() > bound {
                    spin = true;
                    break;
                }
            }
            shown.push(item_list(&here));
            all.extend(here);
        }
        let mut eof = vec![];
        while let Some(x) = conv(codec.decode_eof(&mut src)) {
            eof.push(x);
            if eof.len() > bound {
                spin = true;
                break;
            }
        }
        all.extend(eof.iter().cloned());
        (format!("p={} eof={} rest={}{}", shown.join("|"), item_list(&eof), hex(&src), if spin { " spin" } else { "" }), all, spin, bad_kind)
    });
    match r {
        Err(_) => {
            t3x(rep, "C15", &format!("LinesCodec panicked on {what}"));
            "panic".into()
        }
        Ok((o, all, spin, bad_kind)) => {
            let want = lines_reference(&whole);
            if all != want || spin {
                t3x(rep, "C15", &format!("one LinesCodec instance fed in pieces ({what}) yields {}{} but the reference splitter says {}", item_list(&all), if spin { " (no end)" } else { "" }, item_list(&want)));
            }
            if bad_kind {
                t3x(rep, "C15", &format!("decode error of a kind other than InvalidData on {what}"));
            }
            o
        }
    }
}

/// the real `LinesCodec` under the real `Framed`: the tokens are the answers of the transport (a
/// piece of data, or `None` = Pending), then end of file; the stream is polled
/// `reads + pendings + LFs + 4` times.  T3 (C15): the items are the reference lines, then `None` and
/// nothing but `None` — no error that the codec did not raise (a lone CR that `decode_eof` leaves in
/// the buffer is not an error); every scripted Pending is answered once; and whenever the stream
/// answers Pending, every complete line of the bytes delivered so far has already been yielded (a
/// Pending must not hold back a frame that is buffered)
fn lines_framed(tokens: &[Option<Vec<u8>>], style: u8, rep: &mut Report) -> String {
    let pieces: Vec<Vec<u8>> = tokens.iter().flatten().cloned().collect();
    let whole: Vec<u8> = pieces.concat();
    let shown = tokens.iter().map(|t| t.as_ref().map_or("p".to_string(), |p| show_bytes(p))).collect::<Vec<_>>().join(" ");
    let mut s = Session::new(Sel::Lines, Init::New, style);
    s.io.0.borrow_mut().rscript.extend(tokens.iter().filter(|t| t.as_ref().map_or(true, |p| !p.is_empty())).map(|t| match t {
        Some(p) => Rd::Data(p.clone()),
        None => Rd::Pending,
    }));
    let n_pending = tokens.iter().filter(|t| t.is_none()).count();
    let polls = pieces.iter().filter(|p| !p.is_empty()).count() + n_pending + whole.iter().filter(|b| **b == b'\n').count() + 4;
    let mut outs = vec![];
    let as_out = |l: LineItem| match l {
        LineItem::Ok(v) => Out::Item(v),
        LineItem::Err => Out::DecErr(io::ErrorKind::InvalidData),
    };
    for _ in 0..polls {
        match s.poll_next(false) {
            Ok(o) => {
                if o == Out::Pending {
                    // every complete (LF-terminated) line delivered so far must be out already
                    let io = s.io.0.borrow();
                    let d = &io.delivered;
                    let upto = d.iter().rposition(|b| *b == b'\n').map_or(0, |p| p + 1);
                    let complete = lines_reference(&d[..upto]).len();
                    let yielded = outs.iter().filter(|o: &&Out| o.is_frame()).count();
                    if yielded < complete {
                        t3x(rep, "C15", &format!("LinesCodec under Framed, transport script {shown}: the stream answered Pending with {yielded} of the {complete} complete lines of the {} bytes delivered so far yielded (a buffered line is held back until the transport answers again)", d.len()));
                    }
                }
                outs.push(o)
            }
            Err(_) => {
                t3x(rep, "C15", &format!("Framed<_, LinesCodec> panicked on {shown}"));
                return "panic".into();
            }
        }
    }
    let mut want: Vec<Out> = lines_reference(&whole).into_iter().map(as_out).collect();
    let frames: Vec<Out> = outs.iter().filter(|o| o.is_frame()).cloned().collect();
    while want.len() < frames.len() {
        want.push(Out::None);
    }
    let pend = outs.iter().filter(|o| **o == Out::Pending).count();
    if frames != want || pend != n_pending || outs.iter().any(|o| matches!(o, Out::IoErr(_))) {
        t3x(rep, "C15", &format!("LinesCodec under Framed, transport script {shown} then end of file: the stream yields [{}] but the reference splitter says [{}] (and {n_pending} Pending)", show_outs(&outs), show_outs(&want)));
    }
    format!("[{}]", outs.iter().map(|o| o.show()).collect::<Vec<_>>().join(","))
}

/// a token of the `framed` op: `p` (the transport answers Pending), hex (one read), or
/// `x<len>/<chunk>`: `len` letters (`a` + i mod 26, no line end) offered in reads of `chunk` bytes
fn framed_token(h: &str) -> Option<Vec<Option<Vec<u8>>>> {
    if h == "p" {
        return Some(vec![None]);
    }
    if let Some(spec) = h.strip_prefix('x') {
        let (n, c) = spec.split_once('/')?;
        let digits = |t: &str| !t.is_empty() && t.bytes().all(|b| b.is_ascii_digit());
        if !digits(n) || !digits(c) {
            return None;
        }
        let (n, c) = (n.parse::<usize>().ok()?, c.parse::<usize>().ok()?);
        if n > 100000 || c == 0 || c > 100000 {
            return None;
        }
        let body: Vec<u8> = (0..n).map(|i| b'a' + (i % 26) as u8).collect();
        return Some(body.chunks(c).map(|ch| Some(ch.to_vec())).collect());
    }
    unhex(h).filter(|p| p.len() <= MAX_CHUNK).map(|p| vec![Some(p)])
}

/// all ways of cutting `s` into `k` consecutive (possibly empty) pieces
fn splits(s: &[u8], k: usize) -> Vec<Vec<Vec<u8>>> {
    if k == 1 {
        return vec![vec![s.to_vec()]];
    }
    let mut out = vec![];
    for i in 0..=s.len() {
        for mut rest in splits(&s[i..], k - 1) {
            let mut v = vec![s[..i].to_vec()];
            v.append(&mut rest);
            out.push(v);
        }
    }
    out
}

/// first-line lengths of the sweep: every length up to 600, and a window around every power of two
/// and the LW / HW marks of `Framed` up to 9000 (a newline at exactly such an offset is where a
/// search that works in blocks goes wrong)
fn sweep_lengths() -> Vec<usize> {
    let mut v: Vec<usize> = (0..=600).collect();
    for n in [1024usize, 2048, 4096, 8192, 9000] {
        v.extend(n - 3..=n + 3);
    }
    v
}

/// a stream for the sweep: a first line of `n` bytes (every 7th with CR LF, the CR counted in), then a
/// short second line (terminated or not)
fn sweep_stream(n: usize) -> Vec<u8> {
    let mut s: Vec<u8> = (0..n).map(|i| b'a' + ((i + n) % 26) as u8).collect();
    if n % 7 == 3 && n > 0 {
        s[n - 1] = b'\r';
    }
    s.push(b'\n');
    s.extend_from_slice(if n % 2 == 0 { b"zz\n" } else { b"z" });
    s
}

fn parse_strs(ws: &[&str]) -> Option<Vec<String>> {
    ws.iter().map(|h| unhex(h).and_then(|v| String::from_utf8(v).ok())).collect()
}

/// a random "text-like" byte string: lines with CR / LF / multi-byte chars, sometimes damaged
fn random_text(rng: &mut Rng, max_units: usize) -> Vec<u8> {
    let n = rng.below(max_units + 1);
    let mut v = vec![];
    for _ in 0..n {
        match rng.below(12) {
            0 | 1 => v.push(b'\n'),
            2 => v.push(b'\r'),
            3 => v.extend_from_slice(b"\r\n"),
            4 => v.extend_from_slice("é".as_bytes()),
            5 => v.extend_from_slice("€".as_bytes()),
            6 => v.extend_from_slice("😀".as_bytes()),
            7 => v.push(*rng.pick(&[0xFFu8, 0xC3, 0xA9, 0x80, 0xE2, 0xF0])),
            8 => v.extend_from_slice(SPECIALS[rng.below(SPECIALS.len())]),
            9 => {
                v.extend_from_slice(TRUNCATED[rng.below(TRUNCATED.len())]);
                v.extend_from_slice(*rng.pick(&[&b"\n"[..], b"\r\n", b""]));
            }
            _ => v.push(b'a' + rng.below(26) as u8),
        }
    }
    v
}

fn gen_c15(a: &Args, w: &mut dyn Write) {
    let thorough = a.tier == "thorough";
    // (1) exhaustive: every byte string up to the bound over the alphabet
    let l = if thorough { 8 } else { 7 };
    let mut n = 0usize;
    all_strings(&LINES_ALPHABET, l, &mut |s| {
        if n % 8000 == 0 {
            writeln!(w, "case dec-exhaustive-le{l}-{}", n / 8000).unwrap();
        }
        n += 1;
        writeln!(w, "dec {}", hex(s)).unwrap();
    });
    // (1a) the wide sweep: every sequence of up to 3 (thorough: 4) units over {a, CR, LF, FF} + every
    // special (other ASCII white space and controls, NEL, NBSP, LS, PS, …), whole and through decode_eof
    // directly; directed line-end shapes around every special and around EVERY byte value, whole and
    // with one codec instance cut before the special / before the LF
    {
        let units = wide_units();
        let idx: Vec<u8> = (0..units.len() as u8).collect();
        let lw = if thorough { 4 } else { 3 };
        let mut n = 0usize;
        let mut head = |w: &mut dyn Write| {
            if n % 8000 == 0 {
                writeln!(w, "case dec-wide-{}", n / 8000).unwrap();
            }
            n += 1;
        };
        all_strings(&idx, lw, &mut |ix| {
            let s: Vec<u8> = ix.iter().flat_map(|&i| units[i as usize].iter().copied()).collect();
            head(w);
            writeln!(w, "dec {}", hex(&s)).unwrap();
            if ix.len() <= 3 {
                writeln!(w, "chunkse {}", hex(&s)).unwrap();
            }
        });
        // lines that end in a truncated multi-byte character: whole, decode_eof directly, and one codec
        // instance cut before the truncated character / inside it / before the line end
        for (a, b, st) in truncated_streams() {
            head(w);
            writeln!(w, "dec {}", hex(&st)).unwrap();
            writeln!(w, "chunkse {}", hex(&st)).unwrap();
            for cut in [a, a + 1, b] {
                let cut = cut.min(st.len());
                writeln!(w, "chunks {} {}", hex(&st[..cut]), hex(&st[cut..])).unwrap();
                writeln!(w, "chunkse {} {}", hex(&st[..cut]), hex(&st[cut..])).unwrap();
            }
        }
        let every_byte: Vec<Vec<u8>> = (0..=255u8).map(|b| vec![b]).collect();
        let specials: Vec<&[u8]> = SPECIALS.iter().copied().chain(every_byte.iter().map(|v| &v[..])).collect();
        for sp in specials {
            for text in [&b""[..], b"a", b"key:", "é".as_bytes()] {
                for s in special_shapes(text, sp) {
                    head(w);
                    writeln!(w, "dec {}", hex(&s)).unwrap();
                    writeln!(w, "chunkse {}", hex(&s)).unwrap();
                    let cut = text.len().min(s.len());
                    writeln!(w, "chunks {} {}", hex(&s[..cut]), hex(&s[cut..])).unwrap();
                    let cut2 = (text.len() + sp.len()).min(s.len());
                    writeln!(w, "chunks {} {}", hex(&s[..cut2]), hex(&s[cut2..])).unwrap();
                }
            }
        }
    }
    // (1b) ONE codec instance across several calls, the buffer growing in pieces: every two- and
    // three-piece split (empty pieces included) of every string up to the bound; `chunkse`: the last
    // piece is not decoded before `decode_eof` (which then meets complete lines, valid and invalid)
    {
        let (l2, l3, l1) = if thorough { (6, 5, 7) } else { (5, 4, 6) };
        let mut n = 0usize;
        let mut line = |w: &mut dyn Write, op: &str, ps: &[Vec<u8>]| {
            if n % 8000 == 0 {
                writeln!(w, "case chunked-exhaustive-{}", n / 8000).unwrap();
            }
            n += 1;
            writeln!(w, "{op} {}", ps.iter().map(|p| hex(p)).collect::<Vec<_>>().join(" ")).unwrap();
        };
        all_strings(&LINES_ALPHABET, l1, &mut |s| {
            line(w, "chunkse", &[s.to_vec()]);
            if s.len() <= l2 {
                for ps in splits(s, 2) {
                    line(w, "chunks", &ps);
                    line(w, "chunkse", &ps);
                }
            }
            if s.len() <= l3 {
                for ps in splits(s, 3) {
                    line(w, "chunks", &ps);
                    line(w, "chunkse", &ps);
                }
            }
        });
    }
    // (2) round trip: all sequences of up to 3 strings; strings = all sequences of up to `u` units
    let units: [&[u8]; 4] = [b"a", b"\r", b"\n", "é".as_bytes()];
    let u = if thorough { 3 } else { 2 };
    let mut strs: Vec<Vec<u8>> = vec![];
    all_strings(&[0, 1, 2, 3], u, &mut |ix| strs.push(ix.iter().flat_map(|&i| units[i as usize].iter().copied()).collect()));
    let mut n = 0usize;
    let mut emit = |w: &mut dyn Write, op: &str, seq: &[&Vec<u8>]| {
        if n % 4000 == 0 {
            writeln!(w, "case roundtrip-{}", n / 4000).unwrap();
        }
        n += 1;
        let hs: Vec<String> = seq.iter().map(|s| hex(s)).collect();
        writeln!(w, "{op} {}", hs.join(" ")).unwrap();
    };
    emit(w, "rt", &[]);
    for x in &strs {
        emit(w, "rt", &[x]);
        emit(w, "enc", &[x]);
    }
    for x in &strs {
        for y in &strs {
            emit(w, "rt", &[x, y]);
        }
    }
    let third: Vec<&Vec<u8>> = strs.iter().filter(|s| s.len() <= if thorough { 3 } else { 4 }).collect();
    for x in &third {
        for y in &third {
            for z in &third {
                emit(w, "rt", &[x, y, z]);
            }
        }
    }
    // (3) random longer strings, and a malformed stream
    let mut rng = Rng::new(a.seed ^ 0x15);
    let cases = if thorough { 40000 } else { 4000 };
    for c in 0..cases {
        if c % 2000 == 0 {
            writeln!(w, "case lines-random-{}", c / 2000).unwrap();
        }
        let max_units = *rng.pick(&[12usize, 40, 200]);
        let s = random_text(&mut rng, max_units);
        match rng.below(10) {
            0 => {
                // round trip of the lines of a valid text
                let items: Vec<String> = String::from_utf8_lossy(&s).split('\n').map(|x| x.to_string()).collect();
                let hs: Vec<String> = items.iter().map(|s| hex(s.as_bytes())).collect();
                writeln!(w, "rt {}", hs.join(" ")).unwrap();
            }
            1 => writeln!(w, "rt {}", hex(&s)).unwrap(), // bad-op when not UTF-8
            2 => writeln!(w, "dec {}x", hex(&s)).unwrap(), // malformed hex
            3..=5 => {
                // the text cut at random places into 1..6 pieces for one codec instance
                let k = rng.range(1, 6);
                let mut cuts: Vec<usize> = (0..k - 1).map(|_| rng.below(s.len() + 1)).collect();
                cuts.sort();
                let mut ps = vec![];
                let mut at = 0;
                for c in cuts {
                    ps.push(s[at..c].to_vec());
                    at = c;
                }
                ps.push(s[at..].to_vec());
                let op = if rng.chance(1, 2) { "chunks" } else { "chunkse" };
                writeln!(w, "{op} {}", ps.iter().map(|p| hex(p)).collect::<Vec<_>>().join(" ")).unwrap();
            }
            _ => writeln!(w, "dec {}", hex(&s)).unwrap(),
        }
    }
    // (3a) the codec under the real `Framed` (reads, then end of file): every string up to the bound
    // whole and in every two-piece split; directed streams ending in CR (after a complete line, after
    // a partial line, alone, doubled) in every split into up to three reads
    {
        let lf = if thorough { 5 } else { 4 };
        let n = std::cell::Cell::new(0usize);
        let line = |w: &mut dyn Write, ps: &[Vec<u8>]| {
            if n.get() % 8000 == 0 {
                writeln!(w, "case lines-framed-{}", n.get() / 8000).unwrap();
            }
            n.set(n.get() + 1);
            writeln!(w, "framed {}", ps.iter().map(|p| hex(p)).collect::<Vec<_>>().join(" ")).unwrap();
        };
        all_strings(&LINES_ALPHABET, lf, &mut |s| {
            for ps in splits(s, 2) {
                line(w, &ps);
            }
        });
        // a Pending must not hold back a frame: two or more complete lines in ONE read, then the
        // transport is idle (Pending, repeatedly), then more / end of file
        let pline = |w: &mut dyn Write, toks: &[String]| {
            if n.get() % 8000 == 0 {
                writeln!(w, "case lines-framed-{}", n.get() / 8000).unwrap();
            }
            n.set(n.get() + 1);
            writeln!(w, "framed {}", toks.join(" ")).unwrap();
        };
        all_strings(&LINES_ALPHABET, lf, &mut |s| {
            if s.is_empty() {
                return;
            }
            pline(w, &[hex(s), "p".into(), "p".into(), "p".into()]);
            for ps in splits(s, 2) {
                if ps[0].is_empty() || ps[1].is_empty() {
                    continue;
                }
                pline(w, &[hex(&ps[0]), "p".into(), hex(&ps[1]), "p".into()]);
                pline(w, &["p".into(), hex(&ps[0]), hex(&ps[1]), "p".into(), "p".into()]);
            }
        });
        // one very long line through the real `Framed` (the read buffer has to grow once, twice, …):
        // offered in reads of 1 KiB / 8 KiB / in one go, terminated by LF / CR LF / end of file, a
        // second line behind it; the line comes out intact
        for len in [8191usize, 8192, 8193, 16000, 16383, 16384, 16385, 20000, 32768, 70000] {
            for chunk in [1024usize, 8192, 100000] {
                pline(w, &[format!("x{len}/{chunk}"), "0a".into(), "620a".into()]);
                pline(w, &[format!("x{len}/{chunk}"), "p".into(), "0d0a".into(), "p".into()]);
                pline(w, &[format!("x{len}/{chunk}")]);
            }
        }
        for st in [&b"a\nb\n"[..], b"a\nb\nc\n", b"a\r\nb\r\nc", b"\n\n\n", b"a\n\xff\nb\n", "é\nü\n".as_bytes()] {
            pline(w, &[hex(st), "p".into(), "p".into(), "p".into(), hex(b"z\n"), "p".into()]);
        }
        for st in [&b"\r"[..], b"ab\r", b"a\n\r", b"a\r\n\r", b"\r\r", b"a\nb\r", b"\n\r", b"a\r\r", "é\r".as_bytes(), b"\xff\r", b"a\n\r\n\r"] {
            for k in 1..=3 {
                for ps in splits(st, k) {
                    line(w, &ps);
                }
            }
        }
    }
    // (3b) length sweep: the newline of the first line at every buffer offset 0..=600 and around
    // 1024, 2048, 4096, 8192, 9000, a second line behind it; fed whole, and to one codec instance split
    // just before / at / after / one past the newline
    {
        let mut n_ops = 0usize;
        for n in sweep_lengths() {
            if n_ops % 500 == 0 {
                writeln!(w, "case lines-sweep-{}", n_ops / 500).unwrap();
            }
            n_ops += 1;
            let s = sweep_stream(n);
            writeln!(w, "dec {}", hex(&s)).unwrap();
            writeln!(w, "chunkse {}", hex(&s)).unwrap();
            for cut in [n.saturating_sub(1), n, n + 1, n + 2] {
                let cut = cut.min(s.len());
                writeln!(w, "{} {} {}", if (n + cut) % 2 == 0 { "chunks" } else { "chunkse" }, hex(&s[..cut]), hex(&s[cut..])).unwrap();
            }
        }
    }
    // (3c) glue: `LinesCodec` in a `Framed` whose codec is exchanged while something is buffered
    // (`into_map_codec` lines -> lines, `replace_codec`, `into_parts`/`from_parts`, `into_map_io`):
    // (a) lines encoded but not yet flushed survive and reach the transport in order; (b) complete lines
    // already in the read buffer are still yielded although the transport is Pending afterwards.  The
    // cases use the Framed ops of C13 / C14; their oracles report under C15 (`prop=C15`)
    {
        let mut g = 0usize;
        let exchanges = ["swap lines map", "swap lines replace", "swap lines parts", "mapio"];
        for ex in exchanges {
            for (wi, ws) in ["", "wscript a:1 p", "wscript p a:2 a:100", "fscript p p"].iter().enumerate() {
                for items in [&["61", "62"][..], &["-", "6162", "c3a9"], &["61", "-", "-"], &["n:5000", "n:4000", "62"]] {
                    for at in 1..items.len() {
                        g += 1;
                        writeln!(w, "case lines-glue-w-{g} codec=lines prop=C15{}{}", if g % 3 == 0 { " init=parts" } else { "" }, if g % 2 == 0 { " vec=1" } else { "" }).unwrap();
                        if !ws.is_empty() {
                            writeln!(w, "{ws}").unwrap();
                        }
                        for (i, it) in items.iter().enumerate() {
                            if i == at {
                                if wi % 2 == 1 {
                                    writeln!(w, "flush").unwrap(); // a partial / Pending flush first
                                }
                                writeln!(w, "{ex}").unwrap();
                            }
                            writeln!(w, "{} {it}", if (g + i) % 2 == 0 { "send" } else { "write" }).unwrap();
                        }
                        for op in ["flush", "flush", "flush", "close", "close"] {
                            writeln!(w, "{op}").unwrap();
                        }
                    }
                }
            }
            let units: [&[u8]; 4] = [b"a", b"\r", b"\n", "é".as_bytes()];
            all_strings(&[0, 1, 2, 3], 4, &mut |ix| {
                let st: Vec<u8> = ix.iter().flat_map(|&i| units[i as usize].iter().copied()).collect();
                if st.iter().filter(|b| **b == b'\n').count() < 2 {
                    return;
                }
                for before in 0..=2usize {
                    g += 1;
                    writeln!(w, "case lines-glue-r-{g} codec=lines prop=C15{}", rd_style(g)).unwrap();
                    writeln!(w, "script d:{} p p d:7a0a p", hex(&st)).unwrap();
                    if before > 0 {
                        writeln!(w, "drain {before}").unwrap();
                    }
                    writeln!(w, "{ex}").unwrap();
                    writeln!(w, "drain {}", st.len() + 6).unwrap();
                }
            });
        }
    }
    // (4) very long lines (1..20 KB: beyond memchr's word-at-a-time paths and the 8 KiB mark), with
    // CR LF / LF / no terminator / a trailing CR, multi-byte characters, a damaged byte somewhere
    let cases = if thorough { 400 } else { 40 };
    writeln!(w, "case lines-long").unwrap();
    for _ in 0..cases {
        let mut s = vec![];
        for _ in 0..rng.range(1, 3) {
            let n = *rng.pick(&[1000usize, 4095, 4096, 8191, 8192, 8193, 20000]) + rng.below(3);
            for _ in 0..n {
                s.push(b'a' + rng.below(26) as u8);
            }
            match rng.below(6) {
                0 => {
                    let at = rng.below(s.len());
                    s[at] = 0xFF;
                }
                1 => s.extend_from_slice("é€😀".as_bytes()),
                2 => {
                    let at = rng.below(s.len());
                    s[at] = b'\r';
                }
                _ => {}
            }
            match rng.below(5) {
                0 => s.extend_from_slice(b"\r\n"),
                1 => s.push(b'\r'),
                2 => {}
                _ => s.push(b'\n'),
            }
        }
        writeln!(w, "dec {}", hex(&s)).unwrap();
    }
}

fn step_c15(ws: &[&str], rep: &mut Report) -> Option<String> {
    Some(match ws {
        ["dec", hx] => match unhex(hx) {
            Some(bs) => lines_run(&bs, rep),
            None => "bad-op".into(),
        },
        [op @ ("chunks" | "chunkse"), hs @ ..] if !hs.is_empty() => match hs.iter().map(|h| unhex(h)).collect::<Option<Vec<Vec<u8>>>>() {
            Some(ps) => lines_chunks(&ps, *op == "chunkse", rep),
            None => "bad-op".into(),
        },
        ["framed", hs @ ..] if !hs.is_empty() => match hs.iter().map(|h| framed_token(h)).collect::<Option<Vec<Vec<Option<Vec<u8>>>>>>() {
            Some(ps) => {
                let n_tok = ps.len();
                let ps: Vec<Option<Vec<u8>>> = ps.into_iter().flatten().collect();
                lines_framed(&ps, (n_tok % 4) as u8, rep)
            }
            None => "bad-op".into(),
        },
        ["enc", hs @ ..] => match parse_strs(hs) {
            Some(items) => hex(&lines_encode_all(&items, rep)),
            None => "bad-op".into(),
        },
        ["rt", hs @ ..] => match parse_strs(hs) {
            Some(items) => {
                let buf = lines_encode_all(&items, rep);
                let out = lines_run(&buf, rep);
                // T3 round-trip law
                if items.iter().all(|s| !s.contains('\n') && !s.ends_with('\r')) {
                    let want: Vec<LineItem> = items.iter().map(|s| LineItem::Ok(s.clone().into_bytes())).collect();
                    let mut codec = LinesCodec::default();
                    let mut src = buf.clone();
                    let mut got = vec![];
                    while let Ok(Some(s)) = codec.decode(&mut src) {
                        got.push(LineItem::Ok(s.into_bytes()));
                        if got.len() > items.len() + 2 {
                            break;
                        }
                    }
                    let tail = codec.decode_eof(&mut src);
                    if got != want || !matches!(tail, Ok(None)) {
                        t3x(rep, "C15", &format!("round trip of {:?} gives {} then {:?}", items, item_list(&got), tail.map(|o| o.map(|s| hex(s.as_bytes())))));
                    }
                }
                format!("buf={} {}", hex(&buf), out)
            }
            None => "bad-op".into(),
        },
        _ => return None,
    })
}

// ------------------------------------------------------------------------------------------------
// Scripted transport, counting codec adapter, length-prefixed test codec
// ------------------------------------------------------------------------------------------------

/// largest chunk a scripted read may carry (= the room `Framed` guarantees at every read)
const MAX_CHUNK: usize = 1024;
const IO_MSG: &str = "scripted-io";

#[derive(Clone, Debug, PartialEq)]
enum Rd {
    Data(Vec<u8>),
    Pending,
    Err(io::ErrorKind),
    Eof,
}

/// what the harness knows at the moment `poll_read` is called: how many bytes had been delivered, how
/// many frame outputs the stream had yielded, which codecs were in place since the last byte arrived
struct ReadSnap {
    delivered: usize,
    frames: usize,
    sels: Vec<Sel>,
    /// nothing has arrived through a read yet and the buffer was handed over by
    /// `FramedParts::with_read_buf` (flags empty by construction: the first poll reads first)
    handed_over_only: bool,
}

#[derive(Default)]
struct IoState {
    // read side
    rscript: VecDeque<Rd>,
    n_read: usize,
    eof_reads: usize,
    delivered: Vec<u8>,
    eof_answered: bool,
    zero_room_reads: usize,
    min_room: Option<usize>,
    read_events: Vec<String>,
    wakes_requested: usize,
    /// set by the harness after every poll: frame outputs yielded so far
    frames_so_far: usize,
    /// codecs in place since the last byte was delivered (the last one is the current codec)
    sels_since_arrival: Vec<Sel>,
    read_snaps: Vec<ReadSnap>,
    /// how `poll_read` hands the bytes to the `ReadBuf`: 0 `put_slice`; 1 `initialize_unfilled()` (the
    /// whole spare room is zeroed first, as TLS streams and `std::io::Read` bridges do), copy,
    /// `advance(n)`; 2 `initialize_unfilled_to(n + 37)`, copy, `advance(n)`; 3 a different style at
    /// every read.  Only the FILLED bytes are data — whatever else got initialised is not.
    rd_style: u8,
    /// bytes handed over in `read_buf` at construction (they count as delivered)
    handed_over: usize,
    /// a read has delivered at least one byte
    arrived: bool,
    // write side: a buffering transport.  `poll_write` stages the bytes it accepts; they reach the
    // wire (`written`) only when `poll_flush` (or `poll_shutdown`) completes
    wscript: VecDeque<Wr>,
    fscript: VecDeque<Fl>,
    sscript: VecDeque<Fl>,
    written: Vec<u8>,
    staged: Vec<u8>,
    n_write: usize,
    n_flush: usize,
    n_shutdown: usize,
    shut: bool,
    zero_answers: usize,
    empty_writes: usize,
    /// `is_write_vectored()` answers true (`vec=1` in the case header)
    vectored: bool,
    n_vectored: usize,
    /// `Pending` answers of the write half (each one registered a wake-up)
    wpending_answers: usize,
    /// error answers of the write half, in order
    werr_answers: Vec<io::ErrorKind>,
    /// total length of the encodings accepted by `start_send` so far (set by the harness)
    expected_total: usize,
    /// `poll_shutdown` was called while accepted bytes had not been handed to the transport
    shutdown_early: Option<usize>,
}

impl IoState {
    /// bytes the transport has accepted so far (on the wire or staged)
    fn taken(&self) -> usize {
        self.written.len() + self.staged.len()
    }
}

#[derive(Clone, Debug, PartialEq)]
enum Wr {
    Accept(usize),
    Pending,
    Zero,
    Err(io::ErrorKind),
}

#[derive(Clone, Debug, PartialEq)]
enum Fl {
    Ok,
    Pending,
    Err(io::ErrorKind),
}

#[derive(Clone)]
struct ScriptedIo(Rc<RefCell<IoState>>);

impl AsyncRead for ScriptedIo {
    fn poll_read(self: Pin<&mut Self>, cx: &mut Context<'_>, buf: &mut ReadBuf<'_>) -> Poll<io::Result<()>> {
        let mut st = self.0.borrow_mut();
        st.n_read += 1;
        let room = buf.remaining();
        st.min_room = Some(st.min_room.map_or(room, |m| m.min(room)));
        if room == 0 {
            st.zero_room_reads += 1;
        }
        if room > (1 << 20) {
            // the read buffer of a healthy `Framed` holds one frame and a read chunk; a buffer that keeps
            // doubling means bytes that were never delivered are being counted as data
            panic!("watchdog: poll_read was offered {room} bytes of room after {} bytes of data", st.delivered.len());
        }
        let snap = ReadSnap {
            delivered: st.delivered.len(),
            frames: st.frames_so_far,
            sels: st.sels_since_arrival.clone(),
            handed_over_only: st.handed_over > 0 && !st.arrived,
        };
        st.read_snaps.push(snap);
        let style = if st.rd_style == 3 { (st.n_read % 3) as u8 } else { st.rd_style };
        // styles 1 and 2 touch the spare room before anything else, whatever the answer will be
        match style {
            1 => {
                buf.initialize_unfilled();
            }
            2 => {
                let k = room.min(37 + st.n_read % 5);
                buf.initialize_unfilled_to(k);
            }
            _ => {}
        }
        match st.rscript.pop_front() {
            None => {
                st.eof_answered = true;
                st.eof_reads += 1;
                if st.eof_reads > 64 {
                    panic!("watchdog: poll_read called {} times at end of file", st.eof_reads);
                }
                Poll::Ready(Ok(()))
            }
            Some(Rd::Eof) => {
                st.eof_answered = true;
                Poll::Ready(Ok(()))
            }
            Some(Rd::Data(bs)) => {
                let k = bs.len().min(room);
                match style {
                    0 => buf.put_slice(&bs[..k]),
                    1 => {
                        buf.initialize_unfilled()[..k].copy_from_slice(&bs[..k]);
                        buf.advance(k);
                    }
                    _ => {
                        buf.initialize_unfilled_to(room.min(k + 37))[..k].copy_from_slice(&bs[..k]);
                        buf.advance(k);
                    }
                }
                st.delivered.extend_from_slice(&bs[..k]);
                if k < bs.len() {
                    st.rscript.push_front(Rd::Data(bs[k..].to_vec()));
                }
                if k == 0 {
                    st.eof_answered = true;
                } else {
                    st.arrived = true;
                    if let Some(cur) = st.sels_since_arrival.last().copied() {
                        st.sels_since_arrival = vec![cur];
                    }
                }
                Poll::Ready(Ok(()))
            }
            Some(Rd::Pending) => {
                st.read_events.push("pending".into());
                st.wakes_requested += 1;
                cx.waker().wake_by_ref();
                Poll::Pending
            }
            Some(Rd::Err(k)) => {
                st.read_events.push(format!("ioerr:{}", kind_str(k)));
                Poll::Ready(Err(io::Error::new(k, IO_MSG)))
            }
        }
    }
}

impl AsyncWrite for ScriptedIo {
    fn poll_write(self: Pin<&mut Self>, cx: &mut Context<'_>, buf: &[u8]) -> Poll<io::Result<usize>> {
        let mut st = self.0.borrow_mut();
        st.n_write += 1;
        if st.n_write > 100_000 {
            panic!("watchdog: poll_write called {} times", st.n_write);
        }
        if buf.is_empty() {
            st.empty_writes += 1;
        }
        match st.wscript.pop_front() {
            None => {
                st.staged.extend_from_slice(buf);
                Poll::Ready(Ok(buf.len()))
            }
            Some(Wr::Accept(k)) => {
                let n = k.min(buf.len());
                st.staged.extend_from_slice(&buf[..n]);
                if n == 0 && !buf.is_empty() {
                    st.zero_answers += 1;
                }
                Poll::Ready(Ok(n))
            }
            Some(Wr::Zero) => {
                if !buf.is_empty() {
                    st.zero_answers += 1;
                }
                Poll::Ready(Ok(0))
            }
            Some(Wr::Pending) => {
                st.wakes_requested += 1;
                st.wpending_answers += 1;
                cx.waker().wake_by_ref();
                Poll::Pending
            }
            Some(Wr::Err(k)) => {
                st.werr_answers.push(k);
                Poll::Ready(Err(io::Error::new(k, IO_MSG)))
            }
        }
    }
    /// `vec=1`: the transport says it writes vectored; a vectored write takes the scripted number of
    /// bytes across the slices (same script, same record as `poll_write`)
    fn is_write_vectored(&self) -> bool {
        self.0.borrow().vectored
    }
    fn poll_write_vectored(self: Pin<&mut Self>, cx: &mut Context<'_>, bufs: &[io::IoSlice<'_>]) -> Poll<io::Result<usize>> {
        let all: Vec<u8> = bufs.iter().flat_map(|b| b.iter().copied()).collect();
        self.0.borrow_mut().n_vectored += 1;
        self.poll_write(cx, &all)
    }
    fn poll_flush(self: Pin<&mut Self>, cx: &mut Context<'_>) -> Poll<io::Result<()>> {
        let mut st = self.0.borrow_mut();
        st.n_flush += 1;
        match st.fscript.pop_front() {
            None | Some(Fl::Ok) => {
                // the flush completed: everything staged is on the wire
                let staged = std::mem::take(&mut st.staged);
                st.written.extend_from_slice(&staged);
                Poll::Ready(Ok(()))
            }
            Some(Fl::Pending) => {
                st.wakes_requested += 1;
                st.wpending_answers += 1;
                cx.waker().wake_by_ref();
                Poll::Pending
            }
            Some(Fl::Err(k)) => {
                st.werr_answers.push(k);
                Poll::Ready(Err(io::Error::new(k, IO_MSG)))
            }
        }
    }
    fn poll_shutdown(self: Pin<&mut Self>, cx: &mut Context<'_>) -> Poll<io::Result<()>> {
        let mut st = self.0.borrow_mut();
        st.n_shutdown += 1;
        if st.taken() < st.expected_total && st.shutdown_early.is_none() {
            st.shutdown_early = Some(st.expected_total - st.taken());
        }
        match st.sscript.pop_front() {
            None | Some(Fl::Ok) => {
                // "invocation of a shutdown implies an invocation of flush"
                let staged = std::mem::take(&mut st.staged);
                st.written.extend_from_slice(&staged);
                st.shut = true;
                Poll::Ready(Ok(()))
            }
            Some(Fl::Pending) => {
                st.wakes_requested += 1;
                st.wpending_answers += 1;
                cx.waker().wake_by_ref();
                Poll::Pending
            }
            Some(Fl::Err(k)) => {
                st.werr_answers.push(k);
                Poll::Ready(Err(io::Error::new(k, IO_MSG)))
            }
        }
    }
}

const KINDS: [(&str, io::ErrorKind); 12] = [
    ("ConnectionReset", io::ErrorKind::ConnectionReset),
    ("BrokenPipe", io::ErrorKind::BrokenPipe),
    ("TimedOut", io::ErrorKind::TimedOut),
    ("Other", io::ErrorKind::Other),
    ("UnexpectedEof", io::ErrorKind::UnexpectedEof),
    ("InvalidData", io::ErrorKind::InvalidData),
    ("InvalidInput", io::ErrorKind::InvalidInput),
    ("WriteZero", io::ErrorKind::WriteZero),
    ("WouldBlock", io::ErrorKind::WouldBlock),
    ("Interrupted", io::ErrorKind::Interrupted),
    ("ConnectionAborted", io::ErrorKind::ConnectionAborted),
    ("NotConnected", io::ErrorKind::NotConnected),
];

fn kind_str(k: io::ErrorKind) -> &'static str {
    KINDS.iter().find(|(_, x)| *x == k).map(|(n, _)| *n).unwrap_or("?")
}
fn parse_kind(s: &str) -> Option<io::ErrorKind> {
    KINDS.iter().find(|(n, _)| *n == s).map(|(_, k)| *k)
}

/// short byte strings in hex, long ones as `#<len>.<hash>` (same function in Driver/Codec.lean)
fn show_bytes(bs: &[u8]) -> String {
    if bs.len() <= 24 {
        hex(bs)
    } else {
        let h = bs.iter().fold(7u64, |h, &b| (h * 31 + b as u64) % 4294967296);
        format!("#{}.{}", bs.len(), h)
    }
}

/// The length-prefixed test codec (mirrored by `lenCodec` in Model/Framed.lean): one length byte
/// `n`, then `n` payload bytes; the length byte 255 is a protocol error (the byte is consumed);
/// `decode_eof` is tokio-util's default.
#[derive(Default)]
struct LenCodec;

impl Decoder for LenCodec {
    type Item = Vec<u8>;
    type Error = io::Error;
    fn decode(&mut self, src: &mut BytesMut) -> Result<Option<Vec<u8>>, io::Error> {
        if src.is_empty() {
            return Ok(None);
        }
        let n = src[0] as usize;
        if n == 255 {
            src.advance(1);
            return Err(io::Error::new(io::ErrorKind::InvalidInput, "bad length byte"));
        }
        if src.len() - 1 < n {
            return Ok(None);
        }
        src.advance(1);
        Ok(Some(src.split_to(n).to_vec()))
    }
}

impl Encoder<Vec<u8>> for LenCodec {
    type Error = io::Error;
    fn encode(&mut self, item: Vec<u8>, dst: &mut BytesMut) -> Result<(), io::Error> {
        if item.len() > 254 {
            return Err(io::Error::new(io::ErrorKind::InvalidInput, "item too long"));
        }
        dst.put_u8(item.len() as u8);
        dst.extend_from_slice(&item);
        Ok(())
    }
}

/// A second length-prefixed test codec (mirrored by `lenxCodec` in Model/Framed.lean) with SEVERAL
/// end-of-stream frames: `decode` as `LenCodec`; at end of stream a truncated frame comes out as one
/// `T`-frame (`b'T'` + what is left, everything consumed), then, on the empty buffer, one `E`-frame;
/// the codec remembers that by leaving the mark `0xFE` in the buffer, on which `decode_eof` answers
/// `None` for good.
#[derive(Default)]
struct LenXCodec(LenCodec);

impl Decoder for LenXCodec {
    type Item = Vec<u8>;
    type Error = io::Error;
    fn decode(&mut self, src: &mut BytesMut) -> Result<Option<Vec<u8>>, io::Error> {
        self.0.decode(src)
    }
    fn decode_eof(&mut self, src: &mut BytesMut) -> Result<Option<Vec<u8>>, io::Error> {
        match self.0.decode(src)? {
            Some(f) => Ok(Some(f)),
            None if src.is_empty() => {
                src.put_u8(0xFE);
                Ok(Some(vec![b'E']))
            }
            None if src[..] == [0xFE] => Ok(None),
            None => {
                let mut f = vec![b'T'];
                f.extend_from_slice(&src.split());
                Ok(Some(f))
            }
        }
    }
}

#[derive(Clone, Copy, PartialEq, Debug)]
enum Sel {
    Lines,
    Bytes,
    Len,
    LenX,
}

const ALL_SELS: [Sel; 4] = [Sel::Lines, Sel::Len, Sel::Bytes, Sel::LenX];

impl Sel {
    fn name(self) -> &'static str {
        match self {
            Sel::Lines => "lines",
            Sel::Bytes => "bytes",
            Sel::Len => "len",
            Sel::LenX => "lenx",
        }
    }
    fn parse(s: &str) -> Option<Sel> {
        match s {
            "lines" => Some(Sel::Lines),
            "bytes" => Some(Sel::Bytes),
            "len" => Some(Sel::Len),
            "lenx" => Some(Sel::LenX),
            _ => None,
        }
    }
}

#[derive(Default)]
struct Counters {
    n_decode: usize,
    n_decode_eof: usize,
    n_encode: usize,
}

/// delegates to the real codec selected by `sel` (items as raw bytes) and counts the calls
struct AnyCodec {
    sel: Sel,
    lines: LinesCodec,
    bytes: BytesCodec,
    len: LenCodec,
    lenx: LenXCodec,
    cnt: Rc<RefCell<Counters>>,
}

impl AnyCodec {
    fn new(sel: Sel) -> Self {
        AnyCodec::with_counters(sel, Default::default())
    }
    fn with_counters(sel: Sel, cnt: Rc<RefCell<Counters>>) -> Self {
        AnyCodec { sel, lines: LinesCodec::default(), bytes: BytesCodec, len: LenCodec, lenx: LenXCodec::default(), cnt }
    }
}

impl Decoder for AnyCodec {
    type Item = Vec<u8>;
    type Error = io::Error;
    fn decode(&mut self, src: &mut BytesMut) -> Result<Option<Vec<u8>>, io::Error> {
        self.cnt.borrow_mut().n_decode += 1;
        match self.sel {
            Sel::Lines => self.lines.decode(src).map(|o| o.map(String::into_bytes)),
            Sel::Bytes => self.bytes.decode(src).map(|o| o.map(|b| b.to_vec())),
            Sel::Len => self.len.decode(src),
            Sel::LenX => self.lenx.decode(src),
        }
    }
    fn decode_eof(&mut self, src: &mut BytesMut) -> Result<Option<Vec<u8>>, io::Error> {
        self.cnt.borrow_mut().n_decode_eof += 1;
        match self.sel {
            Sel::Lines => self.lines.decode_eof(src).map(|o| o.map(String::into_bytes)),
            Sel::Bytes => self.bytes.decode_eof(src).map(|o| o.map(|b| b.to_vec())),
            Sel::Len => self.len.decode_eof(src),
            Sel::LenX => self.lenx.decode_eof(src),
        }
    }
}

impl Encoder<Vec<u8>> for AnyCodec {
    type Error = io::Error;
    fn encode(&mut self, item: Vec<u8>, dst: &mut BytesMut) -> Result<(), io::Error> {
        self.cnt.borrow_mut().n_encode += 1;
        match self.sel {
            Sel::Lines => match String::from_utf8(item) {
                Ok(s) => self.lines.encode(s, dst),
                Err(_) => Err(io::Error::new(io::ErrorKind::InvalidData, "not a str")),
            },
            Sel::Bytes => self.bytes.encode(Bytes::from(item), dst),
            Sel::Len | Sel::LenX => self.len.encode(item, dst),
        }
    }
}

struct CountWake(AtomicUsize);
impl Wake for CountWake {
    fn wake(self: Arc<Self>) {
        self.0.fetch_add(1, Ordering::SeqCst);
    }
    fn wake_by_ref(self: &Arc<Self>) {
        self.0.fetch_add(1, Ordering::SeqCst);
    }
}

// ------------------------------------------------------------------------------------------------
// C13: the read side of Framed
// ------------------------------------------------------------------------------------------------

#[derive(Clone, PartialEq, Debug)]
enum Out {
    Item(Vec<u8>),
    DecErr(io::ErrorKind),
    IoErr(io::ErrorKind),
    Pending,
    None,
}

impl Out {
    fn show(&self) -> String {
        match self {
            Out::Item(f) => format!("item:{}", show_bytes(f)),
            Out::DecErr(k) => format!("derr:{}", kind_str(*k)),
            Out::IoErr(k) => format!("ioerr:{}", kind_str(*k)),
            Out::Pending => "pending".into(),
            Out::None => "none".into(),
        }
    }
    fn is_frame(&self) -> bool {
        matches!(self, Out::Item(_) | Out::DecErr(_) | Out::None)
    }
}

struct Session {
    sel: Sel,
    io: ScriptedIo,
    cnt: Rc<RefCell<Counters>>,
    framed: Option<Framed<ScriptedIo, AnyCodec>>,
    wake: Arc<CountWake>,
    outs: Vec<Out>,
    /// the codec in place when `outs[i]` was produced
    out_sel: Vec<Sel>,
    /// read snapshots already examined by the oracle
    snaps_checked: usize,
    /// `outs.len()` at every codec swap
    swap_points: Vec<usize>,
    dead: bool,
    /// concatenated encodings (computed by the harness, not by the codec) of the accepted items
    accepted: Vec<u8>,
}

/// how the `Framed` of a case is made
#[derive(Clone, PartialEq, Debug)]
enum Init {
    /// `Framed::new`: both buffers with capacity HW
    New,
    /// `Framed::from_parts(FramedParts::new(..))`: both buffers without capacity
    Parts,
    /// `Framed::from_parts(FramedParts::with_read_buf(.., buf))`: bytes handed over, flags empty
    Rbuf(Vec<u8>),
}

impl Session {
    fn new(sel: Sel, init: Init, rd_style: u8) -> Self {
        let io = ScriptedIo(Default::default());
        io.0.borrow_mut().vectored = VECTORED.with(|v| v.get());
        io.0.borrow_mut().sels_since_arrival = vec![sel];
        io.0.borrow_mut().rd_style = rd_style;
        let codec = AnyCodec::new(sel);
        let cnt = codec.cnt.clone();
        let framed = match &init {
            Init::New => Framed::new(io.clone(), codec),
            Init::Parts => Framed::from_parts(FramedParts::new(io.clone(), codec)),
            Init::Rbuf(b) => {
                let mut st = io.0.borrow_mut();
                st.delivered = b.clone();
                st.handed_over = b.len();
                drop(st);
                Framed::from_parts(FramedParts::with_read_buf(io.clone(), codec, BytesMut::from(&b[..])))
            }
        };
        Session {
            sel,
            io,
            cnt,
            framed: Some(framed),
            wake: Arc::new(CountWake(AtomicUsize::new(0))),
            outs: vec![],
            out_sel: vec![],
            snaps_checked: 0,
            swap_points: vec![],
            dead: false,
            accepted: vec![],
        }
    }

    /// one poll of the stream: `Stream::poll_next`, or the inherent `Framed::next_item`
    fn poll_next(&mut self, inherent: bool) -> Result<Out, String> {
        let waker = Waker::from(self.wake.clone());
        let mut cx = Context::from_waker(&waker);
        let framed = self.framed.as_mut().unwrap();
        let r = catch(|| {
            if inherent {
                Pin::new(&mut *framed).next_item(&mut cx)
            } else {
                Pin::new(&mut *framed).poll_next(&mut cx)
            }
        });
        let out = match r {
            Err(e) => {
                self.dead = true;
                return Err(e);
            }
            Ok(Poll::Pending) => Out::Pending,
            Ok(Poll::Ready(None)) => Out::None,
            Ok(Poll::Ready(Some(Ok(f)))) => Out::Item(f),
            Ok(Poll::Ready(Some(Err(e)))) => {
                let scripted = e.get_ref().map(|i| i.to_string() == IO_MSG).unwrap_or(false);
                if scripted {
                    Out::IoErr(e.kind())
                } else {
                    Out::DecErr(e.kind())
                }
            }
        };
        self.outs.push(out.clone());
        self.out_sel.push(self.sel);
        if out.is_frame() {
            self.io.0.borrow_mut().frames_so_far += 1;
        }
        Ok(out)
    }

    /// codec swap: flags, `read_buf` and `write_buf` must be carried over
    fn swap(&mut self, sel: Sel, via: &str) -> bool {
        let f = self.framed.take().unwrap();
        let cnt = self.cnt.clone();
        let f2 = match via {
            "map" => f.into_map_codec(move |old: AnyCodec| AnyCodec::with_counters(sel, old.cnt.clone())),
            "replace" => f.replace_codec(AnyCodec::with_counters(sel, cnt)),
            "parts" => {
                let mut parts = f.into_parts();
                parts.codec = AnyCodec::with_counters(sel, cnt);
                Framed::from_parts(parts)
            }
            _ => {
                self.framed = Some(f);
                return false;
            }
        };
        self.framed = Some(f2);
        self.sel = sel;
        self.swap_points.push(self.outs.len());
        self.io.0.borrow_mut().sels_since_arrival.push(sel);
        true
    }

    /// `into_map_io` with the identity
    fn map_io(&mut self) {
        let f = self.framed.take().unwrap();
        self.framed = Some(f.into_map_io(|io: ScriptedIo| io));
    }

    fn read_buf(&mut self) -> Vec<u8> {
        let parts = self.framed.take().unwrap().into_parts();
        let v = parts.read_buf.to_vec();
        self.framed = Some(Framed::from_parts(parts));
        v
    }

    fn write_buf(&mut self) -> Vec<u8> {
        let parts = self.framed.take().unwrap().into_parts();
        let v = parts.write_buf.to_vec();
        self.framed = Some(Framed::from_parts(parts));
        v
    }

    fn wr_counters(&mut self, rep: &mut Report) -> String {
        let wb = self.write_buf();
        let f = self.framed.as_ref().unwrap();
        let (ready, full, empty) = (f.is_write_ready(), f.is_write_buf_full(), f.is_write_buf_empty());
        // T3: the three predicates against the real buffer
        if ready != (wb.len() < HW) || full != (wb.len() >= HW) || empty != wb.is_empty() {
            t3x(rep, "C14", &format!("with {} bytes buffered: is_write_ready={ready} is_write_buf_full={full} is_write_buf_empty={empty}", wb.len()));
        }
        let io = self.io.0.borrow();
        format!(
            "w={} f={} s={} out={} st={} wb={} is={}{}{}",
            io.n_write,
            io.n_flush,
            io.n_shutdown,
            show_bytes(&io.written),
            show_bytes(&io.staged),
            show_bytes(&wb),
            if ready { "r" } else { "-" },
            if full { "f" } else { "-" },
            if empty { "e" } else { "-" }
        )
    }

    fn rd_counters(&mut self, rep: &mut Report) -> String {
        let buf = self.read_buf();
        let empty = self.framed.as_ref().unwrap().is_read_buf_empty();
        if empty != buf.is_empty() {
            t3x(rep, "C13", &format!("is_read_buf_empty={empty} with {} bytes in read_buf", buf.len()));
        }
        let c = self.cnt.borrow();
        format!("rd={} dec={} eofc={} buf={} e={}", self.io.0.borrow().n_read, c.n_decode, c.n_decode_eof, show_bytes(&buf), empty as u8)
    }
}

fn conv_dec(r: io::Result<Option<Vec<u8>>>) -> Out {
    match r {
        Ok(None) => Out::None,
        Ok(Some(f)) => Out::Item(f),
        Err(e) => Out::DecErr(e.kind()),
    }
}

/// what a consumer of the whole stream sees from a fresh instance of the real codec: every result of
/// `decode` until `None`, then (at end of file) results of `decode_eof`
fn whole_stream(sel: Sel, stream: &[u8], at_eof: bool, need: usize) -> Vec<Out> {
    let mut codec = AnyCodec::new(sel);
    let mut src = BytesMut::from(stream);
    let mut out = vec![];
    loop {
        match conv_dec(codec.decode(&mut src)) {
            Out::None => break,
            o => out.push(o),
        }
        if out.len() > stream.len() + 2 {
            break;
        }
    }
    if at_eof {
        while out.len() < need {
            out.push(conv_dec(codec.decode_eof(&mut src)));
        }
    }
    out
}

/// can a fresh instance of the codec take anything (a frame or an error) out of exactly these bytes?
fn can_decode(sel: Sel, bytes: &[u8]) -> bool {
    match sel {
        Sel::Bytes => !bytes.is_empty(),
        _ => {
            let mut src = BytesMut::from(bytes);
            !matches!(AnyCodec::new(sel).decode(&mut src), Ok(None))
        }
    }
}

fn show_outs(v: &[Out]) -> String {
    let n = v.len();
    if n <= 12 {
        v.iter().map(|o| o.show()).collect::<Vec<_>>().join(",")
    } else {
        format!("{},..({} more)..,{}", v[..6].iter().map(|o| o.show()).collect::<Vec<_>>().join(","), n - 9, v[n - 3..].iter().map(|o| o.show()).collect::<Vec<_>>().join(","))
    }
}

/// T3 for C13, evaluated on everything the real `Framed` has answered so far in this case.
///
/// The reference is computed from the bytes the transport delivered and fresh instances of the real
/// codecs only: the frame outputs (items, decode errors, `None`) must be what the codec in place
/// decodes from the not yet consumed part of the whole stream — `decode` until `None`, at end of file
/// `decode_eof` — also across codec swaps (the new codec continues where the frames taken by the old
/// one end); `Pending`s and I/O errors must be surfaced exactly once, by the poll in which they
/// happened; and the transport must not be read while the bytes already delivered hold a frame the
/// codec has not yielded (the frame would be stuck behind a `Pending` or reordered after an error).
fn oracle_c13(s: &mut Session, rep: &mut Report) {
    let io = s.io.0.borrow();
    let frames: Vec<(Out, Sel)> = s.outs.iter().zip(&s.out_sel).filter(|(o, _)| o.is_frame()).map(|(o, c)| (o.clone(), *c)).collect();
    let events: Vec<String> = s.outs.iter().filter(|o| !o.is_frame()).map(|o| o.show()).collect();
    if events != io.read_events {
        t3x(rep, "C13", &format!("transport answered {:?} but the stream surfaced {:?}", io.read_events, events));
    }
    if s.wake.0.load(Ordering::SeqCst) != io.wakes_requested {
        t3x(rep, "C13", &format!("the transport registered {} wake-ups with the context it was given, the task's waker saw {}", io.wakes_requested, s.wake.0.load(Ordering::SeqCst)));
    }
    if io.zero_room_reads > 0 {
        t3x(rep, "C13", "poll_read was called with a buffer that has no room (spurious EOF)");
    }
    // the end of the stream is the transport's to announce (a read that delivers nothing) — not a
    // flush, a shutdown of the write direction or a codec swap
    if s.cnt.borrow().n_decode_eof > 0 && !io.eof_answered {
        t3x(rep, "C13", &format!("decode_eof was called ({} times) although the transport has not answered end of file: the read side was put at EOF by something else", s.cnt.borrow().n_decode_eof));
    }
    if s.dead {
        t3x(rep, "C13", "poll_next panicked or did not return (watchdog)");
        return;
    }
    // after `None` only `None` — as long as the codec is not swapped (another codec may have
    // end-of-stream frames of its own)
    let mut none_seen_at: Option<usize> = None;
    for (idx, o) in s.outs.iter().enumerate() {
        if let Some(i) = none_seen_at {
            if s.out_sel[idx] != s.out_sel[i] || s.swap_points.iter().any(|p| *p > i && *p <= idx) {
                none_seen_at = None;
            } else if o.is_frame() && *o != Out::None {
                t3x(rep, "C13", "an item after None");
                break;
            }
        }
        if *o == Out::None && none_seen_at.is_none() {
            none_seen_at = Some(idx);
        }
    }
    // the reference: walk the delivered stream with fresh codecs, segment by segment
    let d = &io.delivered;
    let at_eof = io.eof_answered;
    let all: Vec<Out> = frames.iter().map(|(o, _)| o.clone()).collect();
    let mut offs: Vec<usize> = vec![0]; // offs[j] = bytes consumed by the first j frame outputs
    let mut off = 0usize;
    // the reference's own buffer: the whole delivered stream, handed from codec to codec at a swap
    // (with whatever a codec's decode_eof left in it)
    let mut src = BytesMut::from(&d[..]);
    let mut i = 0usize;
    let mut ok = true;
    while i < frames.len() && ok {
        let sel = frames[i].1;
        let mut j = i;
        while j < frames.len() && frames[j].1 == sel {
            j += 1;
        }
        match sel {
            Sel::Bytes => {
                for (o, _) in &frames[i..j] {
                    match o {
                        Out::Item(f) => {
                            if f.is_empty() {
                                t3x(rep, "C13", "BytesCodec yielded an empty item");
                            }
                            if !src.starts_with(f) {
                                t3x(rep, "C13", &format!("BytesCodec items [{}] are not a chunking of the stream: after {off} bytes the stream continues {} but the item is {}", show_outs(&all), show_bytes(&src[..f.len().min(src.len())]), show_bytes(f)));
                                ok = false;
                                break;
                            }
                            src.advance(f.len());
                            off = d.len().saturating_sub(src.len());
                        }
                        Out::DecErr(k) => {
                            t3x(rep, "C13", &format!("BytesCodec decode error {k:?}"));
                            ok = false;
                            break;
                        }
                        _ => {
                            // None: everything delivered must have been yielded, and only at end of file
                            if !src.is_empty() || !at_eof {
                                t3x(rep, "C13", &format!("BytesCodec: None after {off} of the {} bytes delivered (end of file answered: {at_eof}); items [{}]", d.len(), show_outs(&all)));
                                ok = false;
                                break;
                            }
                        }
                    }
                    offs.push(off);
                }
            }
            _ => {
                let mut codec = AnyCodec::new(sel);
                for (k, (o, _)) in frames[i..j].iter().enumerate() {
                    let mut w = conv_dec(codec.decode(&mut src));
                    if w == Out::None {
                        if !at_eof {
                            t3x(rep, "C13", &format!("{} codec: Framed yielded [{}], more than the {} frames in the {} bytes delivered so far", sel.name(), show_outs(&all), i + k, d.len()));
                            ok = false;
                            break;
                        }
                        w = conv_dec(codec.decode_eof(&mut src));
                    }
                    if w != *o {
                        let mut want: Vec<Out> = all[..i + k].to_vec();
                        want.push(w);
                        t3x(rep, "C13", &format!("{} codec: Framed yielded [{}] but decoding the whole stream {} with a fresh codec yields [{}] (output {})", sel.name(), show_outs(&all), show_bytes(d), show_outs(&want), i + k));
                        ok = false;
                        break;
                    }
                    // (an end-of-stream frame may leave a mark in the buffer: nothing is read after that)
                    off = d.len().saturating_sub(src.len());
                    offs.push(off);
                }
            }
        }
        i = j;
    }
    // LinesCodec without a swap: also against the independent splitter (the whole-stream reference
    // above uses the crate's own codec, which a defect of the codec itself would fool): the frames are
    // the reference lines of the delivered bytes, in order — before end of file those of the complete
    // (LF-terminated) lines only; once `None` was answered, all of them
    if s.swap_points.is_empty() && !frames.is_empty() && frames.iter().all(|(_, c)| *c == Sel::Lines) {
        let upto = if at_eof { d.len() } else { d.iter().rposition(|b| *b == b'\n').map_or(0, |p| p + 1) };
        let want: Vec<Out> = lines_reference(&d[..upto])
            .into_iter()
            .map(|l| match l {
                LineItem::Ok(v) => Out::Item(v),
                LineItem::Err => Out::DecErr(io::ErrorKind::InvalidData),
            })
            .collect();
        let got: Vec<Out> = all.iter().filter(|o| **o != Out::None).cloned().collect();
        let none_seen = all.iter().any(|o| *o == Out::None);
        if !want.starts_with(&got) || (none_seen && got.len() != want.len()) {
            t3x(rep, "C13", &format!("lines codec: Framed yielded [{}] but the reference splitter gives [{}] for the {} bytes delivered (end of file answered: {at_eof})", show_outs(&all), show_outs(&want), d.len()));
        }
    }
    // no read while a complete frame is buffered
    let snaps = &io.read_snaps;
    let mut checked = s.snaps_checked;
    while checked < snaps.len() {
        let sn = &snaps[checked];
        if sn.frames >= offs.len() {
            break; // the reference stopped before (mismatch reported above) or the poll is not over yet
        }
        checked += 1;
        let o = offs[sn.frames];
        if o > sn.delivered {
            continue;
        }
        let buffered = &d[o..sn.delivered];
        if !buffered.is_empty() && !sn.handed_over_only && sn.sels.iter().all(|c| can_decode(*c, buffered)) {
            let cur = sn.sels.last().copied().unwrap_or(s.sel);
            t3x(rep, 
                "C13",
                &format!(
                    "poll_read was called although the bytes already delivered hold a complete frame not yet yielded: {} frame outputs so far, {} codec, not yet consumed {} (a Pending or an I/O error is then surfaced before a frame that is ready)",
                    sn.frames,
                    cur.name(),
                    show_bytes(buffered)
                ),
            );
        }
    }
    drop(io);
    s.snaps_checked = checked;
}

fn parse_rd(w: &str) -> Option<Rd> {
    if w == "p" {
        Some(Rd::Pending)
    } else if w == "z" {
        Some(Rd::Eof)
    } else if let Some(h) = w.strip_prefix("d:") {
        unhex(h).filter(|v| v.len() <= MAX_CHUNK).map(Rd::Data)
    } else if let Some(k) = w.strip_prefix("e:") {
        parse_kind(k).map(Rd::Err)
    } else {
        None
    }
}

fn show_rd(e: &Rd) -> String {
    match e {
        Rd::Data(b) => format!("d:{}", hex(b)),
        Rd::Pending => "p".into(),
        Rd::Err(k) => format!("e:{}", kind_str(*k)),
        Rd::Eof => "z".into(),
    }
}

fn step_c13(ws: &[&str], s: &mut Session, rep: &mut Report) -> Option<String> {
    Some(match ws {
        ["script", evs @ ..] => match evs.iter().map(|w| parse_rd(w)).collect::<Option<Vec<Rd>>>() {
            Some(es) => {
                let mut io = s.io.0.borrow_mut();
                io.rscript.extend(es);
                format!("ok {}", io.rscript.len())
            }
            None => "bad-op".into(),
        },
        [op @ ("poll" | "next")] => {
            if s.dead {
                return Some("panic".into());
            }
            let r = s.poll_next(*op == "next");
            let o = match r {
                Ok(o) => format!("{} {}", o.show(), s.rd_counters(rep)),
                Err(_) => "panic".into(),
            };
            if s.io.0.borrow().delivered.len() <= 256 {
                oracle_c13(s, rep);
            }
            o
        }
        ["drain", n] => match n.parse::<usize>() {
            Ok(n) if n <= 10000 => {
                if s.dead {
                    return Some("panic".into());
                }
                let mut shown = vec![];
                for _ in 0..n {
                    match s.poll_next(false) {
                        Ok(o) => shown.push(o.show()),
                        Err(_) => break,
                    }
                }
                let o = if s.dead { "panic".to_string() } else { format!("[{}] {}", shown.join(","), s.rd_counters(rep)) };
                oracle_c13(s, rep);
                o
            }
            _ => "bad-op".into(),
        },
        ["swap", c, via @ ("map" | "replace" | "parts")] => match Sel::parse(c) {
            Some(sel) => {
                if s.dead {
                    return Some("panic".into());
                }
                let (rb0, wb0) = (s.read_buf(), s.write_buf());
                let r = catch(|| s.swap(sel, via));
                if r.is_err() {
                    s.dead = true;
                    return Some("panic".into());
                }
                let (rb1, wb1) = (s.read_buf(), s.write_buf());
                // T3: a codec swap carries both buffers over
                if rb0 != rb1 {
                    t3x(rep, "C13", &format!("codec swap ({via}) changed read_buf from {} to {}", show_bytes(&rb0), show_bytes(&rb1)));
                }
                if wb0 != wb1 {
                    t3x(rep, "C14", &format!("codec swap ({via}) changed write_buf from {} to {}", show_bytes(&wb0), show_bytes(&wb1)));
                }
                format!("ok {} {}", s.rd_counters(rep), s.wr_counters(rep))
            }
            None => "bad-op".into(),
        },
        // `BytesCodec::decode` called directly, until `None`, on a buffer of n bytes (i*31+7 mod 256):
        // the frames are a chunking of the buffer, in order
        ["bdec", n] => match n.parse::<usize>() {
            Ok(n) if n <= 40000 && ws[1].bytes().all(|c| c.is_ascii_digit()) => {
                let data: Vec<u8> = (0..n).map(|i| ((i * 31 + 7) % 256) as u8).collect();
                let mut src = BytesMut::from(&data[..]);
                let mut codec = BytesCodec;
                let mut frames: Vec<Vec<u8>> = vec![];
                let r = catch(|| {
                    while let Ok(Some(f)) = codec.decode(&mut src) {
                        frames.push(f.to_vec());
                        if frames.len() > n + 2 {
                            break;
                        }
                    }
                });
                if r.is_err() {
                    t3x(rep, "C13", &format!("BytesCodec::decode panicked on a buffer of {n} bytes"));
                    return Some("panic".into());
                }
                if frames.concat() != data || frames.iter().any(|f| f.is_empty()) {
                    t3x(rep, "C13", &format!("BytesCodec::decode on a buffer of {n} bytes yields frames of {:?} bytes whose concatenation {} is not the buffer {}", frames.iter().map(|f| f.len()).collect::<Vec<_>>(), show_bytes(&frames.concat()), show_bytes(&data)));
                }
                format!("[{}]", frames.iter().map(|f| show_bytes(f)).collect::<Vec<_>>().join(","))
            }
            _ => "bad-op".into(),
        },
        ["mapio"] => {
            if s.dead {
                return Some("panic".into());
            }
            let (rb0, wb0) = (s.read_buf(), s.write_buf());
            if catch(|| s.map_io()).is_err() {
                s.dead = true;
                return Some("panic".into());
            }
            let (rb1, wb1) = (s.read_buf(), s.write_buf());
            if rb0 != rb1 {
                t3x(rep, "C13", &format!("into_map_io changed read_buf from {} to {}", show_bytes(&rb0), show_bytes(&rb1)));
            }
            if wb0 != wb1 {
                t3x(rep, "C14", &format!("into_map_io changed write_buf from {} to {}", show_bytes(&wb0), show_bytes(&wb1)));
            }
            format!("ok {} {}", s.rd_counters(rep), s.wr_counters(rep))
        }
        _ => return None,
    })
}

/// codec, alphabet, how much shorter than the tier's bound the strings are
const C13_ALPHABETS: [(Sel, &[u8], usize); 4] = [
    (Sel::Lines, &[b'a', b'\r', b'\n', 0xFF], 0),
    (Sel::Len, &[0, 1, 2, 0xFF], 0),
    (Sel::Bytes, &[b'a', b'\n'], 0),
    // several end-of-stream frames (a truncated frame, then the end mark): every one must come out
    (Sel::LenX, &[0, 1, 2, 0xFF], 1),
];

/// alphabet of the codec-swap cases: a delimiter for `LinesCodec`, short frames for the
/// length-prefixed codec (`00` = empty frame, `01 x` = one byte), and a byte that starts a frame
/// longer than the stream (truncated at end of file)
const SWAP_ALPHABET: [u8; 4] = [0x00, 0x01, 0x0a, 0x61];

/// all compositions of `s` into non-empty chunks
fn compositions(s: &[u8]) -> Vec<Vec<Vec<u8>>> {
    if s.is_empty() {
        return vec![vec![]];
    }
    let n = s.len();
    (0..(1u32 << (n - 1)))
        .map(|mask| {
            let mut chunks = vec![];
            let mut cur = vec![s[0]];
            for i in 1..n {
                if mask & (1 << (i - 1)) != 0 {
                    chunks.push(std::mem::take(&mut cur));
                }
                cur.push(s[i]);
            }
            chunks.push(cur);
            chunks
        })
        .collect()
}

/// `chunks` with extra events inserted: `ins` = (position, event), position `i` = before chunk `i`
fn script_with(chunks: &[Vec<u8>], ins: &[(usize, Rd)]) -> Vec<Rd> {
    let mut out = vec![];
    for i in 0..=chunks.len() {
        for (p, e) in ins {
            if *p == i {
                out.push(e.clone());
            }
        }
        if i < chunks.len() {
            out.push(Rd::Data(chunks[i].clone()));
        }
    }
    out
}

fn emit_c13(w: &mut dyn Write, id: &mut usize, sel: Sel, tag: &str, script: &[Rd], polls: usize) {
    // every 5th case on a `Framed` made from `FramedParts::new` (buffers without capacity)
    let extra = if *id % 5 == 1 { " init=parts" } else { "" };
    emit_c13x(w, id, sel, tag, script, polls, extra)
}

fn emit_c13x(w: &mut dyn Write, id: &mut usize, sel: Sel, tag: &str, script: &[Rd], polls: usize, extra: &str) {
    *id += 1;
    let rd = if extra.contains(" rd=") { "" } else { rd_style(*id / 5 + *id) };
    writeln!(w, "case c13-{}-{tag}-{} codec={}{extra}{rd}", sel.name(), *id, sel.name()).unwrap();
    let evs: Vec<String> = script.iter().map(show_rd).collect();
    writeln!(w, "script {}", evs.join(" ")).unwrap();
    writeln!(w, "drain {polls}").unwrap();
}

const VIAS: [&str; 3] = ["map", "replace", "parts"];

/// the `ReadBuf` filling style of a case, in rotation (the expected frames are the same under each)
fn rd_style(id: usize) -> &'static str {
    ["", " rd=init", " rd=initk", " rd=mix", " rd=init"][id % 5]
}

/// a codec-swap case: `before` polls with codec `a`, swap to `b`, `after` polls
#[allow(clippy::too_many_arguments)]
fn emit_swap(w: &mut dyn Write, id: &mut usize, a: Sel, b: Sel, tag: &str, script: &[Rd], before: usize, after: usize) {
    *id += 1;
    writeln!(w, "case c13-swap-{}-{}-{tag}-{} codec={}{}", a.name(), b.name(), *id, a.name(), rd_style(*id)).unwrap();
    let evs: Vec<String> = script.iter().map(show_rd).collect();
    writeln!(w, "script {}", evs.join(" ")).unwrap();
    if before > 0 {
        writeln!(w, "drain {before}").unwrap();
    }
    if *id % 7 == 3 {
        writeln!(w, "mapio").unwrap();
    }
    writeln!(w, "swap {} {}", b.name(), VIAS[*id % 3]).unwrap();
    writeln!(w, "drain {after}").unwrap();
}

fn long_stream(rng: &mut Rng, sel: Sel) -> Vec<u8> {
    let target = *rng.pick(&[1500usize, 6000, 9000, 12000, 20000]);
    let mut v = vec![];
    while v.len() < target {
        match sel {
            Sel::Lines => {
                // lines around the 1 KiB mark, just above the 8 KiB buffer, and so long that the buffer
                // has to grow twice and fills up to less than LW of spare room again (> 15.4 KiB, > 31.8 KiB)
                let n = match rng.below(12) {
                    0 => rng.range(1000, 1100),
                    1 => rng.range(8100, 8300),
                    2 => 0,
                    3 => rng.range(15300, 16500),
                    4 => *rng.pick(&[7168usize, 8191, 8192, 16383, 16384, 31700, 33000]),
                    _ => rng.range(1, 120),
                };
                for _ in 0..n {
                    v.push(b'a' + rng.below(26) as u8);
                }
                match rng.below(12) {
                    0 => v.push(0xFF),
                    1 => v.extend_from_slice("é".as_bytes()),
                    2 | 3 => v.extend_from_slice(SPECIALS[rng.below(SPECIALS.len())]),
                    4 => v.extend_from_slice(TRUNCATED[rng.below(TRUNCATED.len())]),
                    _ => {}
                }
                if rng.chance(1, 4) {
                    v.push(b'\r');
                }
                v.push(b'\n');
            }
            Sel::Len | Sel::LenX => {
                if rng.chance(1, 40) {
                    v.push(0xFF);
                } else {
                    let n = *rng.pick(&[0usize, 1, 2, 10, 100, 254, 254]);
                    v.push(n as u8);
                    for _ in 0..n {
                        v.push(rng.below(256) as u8);
                    }
                }
            }
            Sel::Bytes => {
                for _ in 0..rng.range(1, 300) {
                    v.push(rng.below(256) as u8);
                }
            }
        }
    }
    if rng.chance(1, 2) {
        // unterminated tail / truncated frame
        let cut = rng.below(40.min(v.len()));
        v.truncate(v.len() - cut);
    }
    v
}

fn all_kinds() -> Vec<io::ErrorKind> {
    KINDS.iter().map(|(_, k)| *k).collect()
}

fn gen_c13(a: &Args, w: &mut dyn Write) {
    let thorough = a.tier == "thorough";
    let mut id = 0usize;
    // every error kind the transport may answer, `UnexpectedEof`, `WouldBlock`, `Interrupted` included:
    // each of them is an item of the stream, none is an end of stream or a retry
    let kinds = all_kinds();
    // (F) codec swaps (first: these are the scenarios that need a history): every string over the swap
    // alphabet, every composition, every pair of codecs, the swap after 0..3 polls, without transport
    // events / with a Pending / an I/O error at every place
    {
        let lf = if thorough { 4 } else { 3 };
        let mut k = 0usize;
        all_strings(&SWAP_ALPHABET, lf, &mut |s| {
            if s.is_empty() {
                return;
            }
            for chunks in compositions(s) {
                // the longest strings (thorough tier only): one or two chunks, the swap after 1..3 polls
                if s.len() == 4 && chunks.len() > 2 {
                    continue;
                }
                let polls = chunks.len() + s.len() + 3;
                let p = chunks.len() + 1;
                for a_sel in ALL_SELS {
                    for b_sel in ALL_SELS {
                        // the codec with several end-of-stream frames: with itself and with LinesCodec only
                        if (a_sel == Sel::LenX || b_sel == Sel::LenX) && !matches!((a_sel, b_sel), (Sel::LenX, Sel::LenX) | (Sel::LenX, Sel::Lines) | (Sel::Lines, Sel::LenX)) {
                            continue;
                        }
                        for before in (if s.len() == 4 { 1 } else { 0 })..=(if s.len() >= 3 { 3 } else { 2 }) {
                            emit_swap(w, &mut id, a_sel, b_sel, "plain", &script_with(&chunks, &[]), before, polls);
                            for i in 0..p {
                                k += 1;
                                emit_swap(w, &mut id, a_sel, b_sel, "pend", &script_with(&chunks, &[(i, Rd::Pending)]), before, polls + 1);
                                let e = Rd::Err(kinds[k % kinds.len()]);
                                emit_swap(w, &mut id, a_sel, b_sel, "err", &script_with(&chunks, &[(i, e)]), before, polls + 1);
                            }
                        }
                    }
                }
            }
        });
    }
    for (sel, alphabet, shorter) in C13_ALPHABETS {
        let extra = if alphabet.len() == 2 { 2 } else { 0 };
        let (la, lb) = if thorough { (6 + extra - shorter, 5 + extra - shorter) } else { (5 + extra - shorter, 4 + extra - shorter) };
        let mut k = 0usize;
        all_strings(alphabet, la, &mut |s| {
            for chunks in compositions(s) {
                let polls = chunks.len() + s.len() + 3;
                // (A) every composition, no transport events
                emit_c13(w, &mut id, sel, "chunks", &script_with(&chunks, &[]), polls);
                if s.len() > lb {
                    continue;
                }
                // … and the same script under every other way of filling the `ReadBuf`
                if !s.is_empty() {
                    for rd in [" rd=init", " rd=initk", " rd=mix"] {
                        emit_c13x(w, &mut id, sel, "chunks", &script_with(&chunks, &[]), polls, rd);
                    }
                }
                let p = chunks.len() + 1;
                // (B) Pending at one or two places
                for i in 0..p {
                    emit_c13(w, &mut id, sel, "pend1", &script_with(&chunks, &[(i, Rd::Pending)]), polls + 1);
                    for j in i..p {
                        emit_c13(w, &mut id, sel, "pend2", &script_with(&chunks, &[(i, Rd::Pending), (j, Rd::Pending)]), polls + 2);
                    }
                }
                // (C) one I/O error (every kind in turn) at every place, alone / after a Pending / before a
                // Pending; an explicit end of file (an empty read) at every place: nothing after it is read
                for i in 0..p {
                    k += 1;
                    let e = Rd::Err(kinds[k % kinds.len()]);
                    emit_c13(w, &mut id, sel, "err", &script_with(&chunks, &[(i, e.clone())]), polls + 1);
                    emit_c13(w, &mut id, sel, "perr", &script_with(&chunks, &[(i, Rd::Pending), (i, e.clone())]), polls + 2);
                    emit_c13(w, &mut id, sel, "errp", &script_with(&chunks, &[(i, e.clone()), (i, Rd::Pending)]), polls + 2);
                    if s.len() >= lb {
                        continue;
                    }
                    let z = if k % 2 == 0 { Rd::Eof } else { Rd::Data(vec![]) };
                    emit_c13(w, &mut id, sel, "eof", &script_with(&chunks, &[(i, z.clone())]), polls + 1);
                    emit_c13(w, &mut id, sel, "erreof", &script_with(&chunks, &[(i, e.clone()), (i, z)]), polls + 2);
                    // two I/O errors (same place: back to back; or two places)
                    for j in i..p {
                        let e2 = Rd::Err(kinds[(k + 5 + j) % kinds.len()]);
                        emit_c13(w, &mut id, sel, "err2", &script_with(&chunks, &[(i, e.clone()), (j, e2)]), polls + 2);
                    }
                }
            }
        });
    }
    // (H) the two halves of one `Framed`: the Sink half is used (send / flush / close, shutdown of the
    // WRITE direction completing at once or after a Pending) after 0..3 polls of the Stream half — the
    // read side must go on exactly as if nothing had happened: the transport has not signalled EOF,
    // what is buffered stays, what arrives later is decoded
    {
        const PROGRAMS: [&[&str]; 7] = [
            &["close"],
            &["send 61", "close"],
            &["xclose"],
            &["sscript p", "close", "close"],
            &["send 61", "flush"],
            &["fscript p", "send 0a", "close", "close"],
            &["ready", "xflush", "close"],
        ];
        let mut k = 0usize;
        for (sel, alphabet, shorter) in C13_ALPHABETS {
            let extra = if alphabet.len() == 2 { 2 } else { 0 };
            let lh = if thorough { 4 + extra - shorter } else { 3 + extra - shorter };
            all_strings(alphabet, lh, &mut |s| {
                if s.is_empty() {
                    return;
                }
                for chunks in compositions(s) {
                    let polls = chunks.len() + s.len() + 3;
                    for before in 0..=chunks.len().min(3) {
                        for variant in 0..3 {
                            k += 1;
                            let script = match variant {
                                0 => script_with(&chunks, &[]),
                                1 => script_with(&chunks, &[(k % (chunks.len() + 1), Rd::Pending)]),
                                _ => script_with(&chunks, &[(k % (chunks.len() + 1), Rd::Err(kinds[k % kinds.len()]))]),
                            };
                            let prog = PROGRAMS[k % PROGRAMS.len()];
                            id += 1;
                            writeln!(w, "case c13-{}-halves-{id} codec={}{}{}", sel.name(), sel.name(), rd_style(id), if id % 2 == 0 { " vec=1" } else { "" }).unwrap();
                            writeln!(w, "script {}", script.iter().map(show_rd).collect::<Vec<_>>().join(" ")).unwrap();
                            if before > 0 {
                                writeln!(w, "drain {before}").unwrap();
                            }
                            for l in prog {
                                writeln!(w, "{l}").unwrap();
                            }
                            writeln!(w, "drain {}", polls + 1).unwrap();
                        }
                    }
                }
            });
        }
    }
    // (G) bytes handed over in `read_buf` (`FramedParts::with_read_buf`, flags empty): every split of
    // every string into a handed-over prefix and a rest delivered by reads (every composition, a
    // Pending at every place)
    for (sel, alphabet, shorter) in C13_ALPHABETS {
        let extra = if alphabet.len() == 2 { 2 } else { 0 };
        let lg = if thorough { 5 + extra - shorter } else { 4 + extra - shorter };
        all_strings(alphabet, lg, &mut |s| {
            for j in 1..=s.len() {
                let init = format!(" init=rbuf:{}", hex(&s[..j]));
                for chunks in compositions(&s[j..]) {
                    let polls = chunks.len() + s.len() + 3;
                    emit_c13x(w, &mut id, sel, "rbuf", &script_with(&chunks, &[]), polls, &init);
                    for i in 0..=chunks.len() {
                        emit_c13x(w, &mut id, sel, "rbufp", &script_with(&chunks, &[(i, Rd::Pending)]), polls + 1, &init);
                    }
                }
            }
        });
    }
    // (T) LinesCodec under Framed, lines that END in a truncated multi-byte character (directly before
    // LF / CR LF / end of file): an error item each, nothing swallowed — every composition of the short
    // ones; the longer ones whole, byte by byte and cut before / inside / after the truncated character
    for (a, b, st) in truncated_streams() {
        if st.len() <= 6 {
            for (ci, chunks) in compositions(&st).into_iter().enumerate() {
                let ins = if ci % 5 == 2 { vec![(ci % (chunks.len() + 1), Rd::Pending)] } else { vec![] };
                emit_c13(w, &mut id, Sel::Lines, "trunc", &script_with(&chunks, &ins), chunks.len() + 6);
            }
        } else {
            let mut shapes: Vec<Vec<Vec<u8>>> = vec![vec![st.clone()], st.iter().map(|x| vec![*x]).collect()];
            for cut in [a, a + 1, b] {
                let cut = cut.min(st.len());
                shapes.push(vec![st[..cut].to_vec(), st[cut..].to_vec()]);
            }
            for chunks in shapes {
                let chunks: Vec<Vec<u8>> = chunks.into_iter().filter(|c| !c.is_empty()).collect();
                emit_c13(w, &mut id, Sel::Lines, "trunc", &script_with(&chunks, &[(1, Rd::Pending)]), chunks.len() + 7);
            }
        }
    }
    // (W) LinesCodec under Framed and everything a line end / white space could be confused with:
    // the directed shapes around every special, every composition into chunks (a Pending in some)
    for (si, sp) in SPECIALS.iter().enumerate() {
        for text in [&b""[..], b"a"] {
            for (k, st) in special_shapes(text, sp).into_iter().enumerate() {
                if st.len() > 7 {
                    // longer shapes: whole, byte by byte, and cut before / after the special
                    let whole = vec![st.clone()];
                    let bytes: Vec<Vec<u8>> = st.iter().map(|b| vec![*b]).collect();
                    let c = text.len().min(st.len());
                    let c2 = (text.len() + sp.len()).min(st.len());
                    for chunks in [whole, bytes, vec![st[..c].to_vec(), st[c..].to_vec()], vec![st[..c2].to_vec(), st[c2..].to_vec()]] {
                        let chunks: Vec<Vec<u8>> = chunks.into_iter().filter(|c| !c.is_empty()).collect();
                        emit_c13(w, &mut id, Sel::Lines, "special", &script_with(&chunks, &[]), chunks.len() + 6);
                    }
                    continue;
                }
                for (ci, chunks) in compositions(&st).into_iter().enumerate() {
                    let ins = if (si + k + ci) % 4 == 0 { vec![(ci % (chunks.len() + 1), Rd::Pending)] } else { vec![] };
                    emit_c13(w, &mut id, Sel::Lines, "special", &script_with(&chunks, &ins), chunks.len() + 6);
                }
            }
        }
    }
    // (S) length sweep for LinesCodec under Framed: the newline of the first line at every offset
    // 0..=600 and around 1024, 2048, 4096, 8192, 9000, a second line behind it; delivered in chunks of
    // 1 KiB (whole when it fits), and with a chunk boundary just before / at / after the newline
    for n in sweep_lengths() {
        let s = sweep_stream(n);
        for cut in [None, Some(n.saturating_sub(1)), Some(n), Some(n + 1)] {
            let mut script = vec![];
            let parts: Vec<&[u8]> = match cut {
                None => vec![&s[..]],
                Some(c) => vec![&s[..c.min(s.len())], &s[c.min(s.len())..]],
            };
            for part in parts {
                for ch in part.chunks(MAX_CHUNK) {
                    script.push(Rd::Data(ch.to_vec()));
                }
            }
            if n % 5 == 0 {
                script.insert(script.len() / 2, Rd::Pending);
            }
            let polls = script.len() + 5;
            emit_c13x(w, &mut id, Sel::Lines, "sweep", &script, polls, if n % 4 == 1 { " init=parts" } else { "" });
        }
    }
    // (G2) BIG handed-over read buffers (`with_read_buf`: 8191 / 8192 / 8193 / 16384 / 20000 bytes,
    // more than `Framed::new` ever buffers), then a stream; and the codecs called directly on big buffers
    {
        let line_unit: Vec<u8> = (0..63).map(|i| b'a' + (i % 26) as u8).chain([b'\n']).collect();
        let len_unit: Vec<u8> = [62u8].into_iter().chain((0..62).map(|i| (i * 3 + 1) as u8)).collect();
        let bytes_unit: Vec<u8> = (0..97).map(|i| (i * 5 + 1) as u8).collect();
        let mut k = 0usize;
        for (sel, unit) in [(Sel::Bytes, &bytes_unit), (Sel::Lines, &line_unit), (Sel::Len, &len_unit), (Sel::LenX, &len_unit), (Sel::Bytes, &line_unit)] {
            for total in [8191usize, 8192, 8193, 16384, 20000, 1025, 9000] {
                for variant in 0..4 {
                    k += 1;
                    let rest: Vec<u8> = unit.iter().copied().cycle().skip(total % unit.len()).take(150).collect();
                    let script = match variant {
                        0 => vec![],
                        1 => vec![Rd::Data(rest[..70].to_vec()), Rd::Data(rest[70..].to_vec())],
                        2 => vec![Rd::Pending, Rd::Data(rest.clone()), Rd::Err(kinds[k % kinds.len()]), Rd::Data(vec![b'\n'])],
                        _ => vec![Rd::Data(rest.iter().copied().cycle().take(1024).collect()), Rd::Data(rest.clone())],
                    };
                    let extra = format!(" init=rbufr:{total}:{}", hex(unit));
                    emit_c13x(w, &mut id, sel, "bigrbuf", &script, total / 64 + script.len() + 24, &extra);
                }
            }
        }
        id += 1;
        writeln!(w, "case c13-bytes-direct-{id} codec=bytes").unwrap();
        for n in [0usize, 1, 8191, 8192, 8193, 16384, 16385, 20000, 40000] {
            writeln!(w, "bdec {n}").unwrap();
        }
    }
    // (D) long random streams crossing the 1 KiB / 8 KiB marks, random chunk sizes up to 1 KiB
    let mut rng = Rng::new(a.seed ^ 0x13);
    let cases = if thorough { 900 } else { 210 };
    for c in 0..cases {
        let sel = [Sel::Lines, Sel::Len, Sel::Bytes, Sel::Lines, Sel::LenX, Sel::Bytes][c % 6];
        let stream = long_stream(&mut rng, sel);
        let mut script = vec![];
        let mut i = 0;
        let style = rng.below(4);
        while i < stream.len() {
            let n = match style {
                0 => rng.range(1, 16),
                1 => rng.range(900, 1024),
                2 => 1024,
                _ => *rng.pick(&[1usize, 7, 64, 500, 1023, 1024]),
            }
            .min(stream.len() - i);
            script.push(Rd::Data(stream[i..i + n].to_vec()));
            i += n;
            if rng.chance(1, 12) {
                script.push(Rd::Pending);
            }
        }
        for _ in 0..*rng.pick(&[0usize, 1, 1, 2, 4]) {
            let at = rng.below(script.len() + 1);
            script.insert(at, Rd::Err(*rng.pick(&kinds)));
        }
        match rng.below(6) {
            0 => script.push(Rd::Eof),
            1 => {
                // an explicit EOF in the middle: nothing after it may be read
                let at = rng.below(script.len() + 1);
                script.insert(at, if rng.chance(1, 2) { Rd::Eof } else { Rd::Data(vec![]) });
            }
            _ => {}
        }
        id += 1;
        writeln!(w, "case c13-{}-long-{id} codec={}{}{}", sel.name(), sel.name(), if rng.chance(1, 4) { " init=parts" } else { "" }, rd_style(rng.below(5))).unwrap();
        // the script in several `script` lines, polls in between (the script may run dry = EOF only at the end)
        let evs: Vec<String> = script.iter().map(show_rd).collect();
        for part in evs.chunks(12) {
            writeln!(w, "script {}", part.join(" ")).unwrap();
        }
        let frames: usize = ALL_SELS.iter().map(|c| whole_stream(*c, &stream, true, 0).len()).sum::<usize>() + 4;
        let swaps = if rng.chance(1, 3) { rng.range(1, 3) } else { 0 };
        let polls = (script.len() + if swaps > 0 { frames } else { whole_stream(sel, &stream, true, 0).len() } + 4).min(10000);
        if rng.chance(1, 3) {
            for _ in 0..rng.range(1, 6) {
                writeln!(w, "{}", if rng.chance(1, 2) { "poll" } else { "next" }).unwrap();
            }
        }
        // codec swaps in the middle of the stream (the buffer may hold several frames, a partial frame,
        // more than 8 KiB)
        // the Sink half in between (flush / close of the write direction): the read side goes on
        if rng.chance(1, 3) {
            writeln!(w, "drain {}", rng.range(0, (polls / 3).max(1))).unwrap();
            for l in *rng.pick(&[&["close"][..], &["send 61", "xclose"][..], &["sscript p", "send n:100", "close", "close"][..], &["send 62", "flush"][..]]) {
                writeln!(w, "{l}").unwrap();
            }
        }
        for _ in 0..swaps {
            writeln!(w, "drain {}", rng.range(0, (polls / 3).max(1))).unwrap();
            if rng.chance(1, 4) {
                writeln!(w, "mapio").unwrap();
            }
            writeln!(w, "swap {} {}", rng.pick(&ALL_SELS).name(), rng.pick(&VIAS)).unwrap();
        }
        writeln!(w, "drain {polls}").unwrap();
        writeln!(w, "poll").unwrap();
    }
    // (E) malformed ops: rejected identically by both sides
    writeln!(w, "case c13-malformed codec=lines").unwrap();
    writeln!(w, "script d:6").unwrap();
    writeln!(w, "script x:61").unwrap();
    writeln!(w, "script e:NoSuchKind").unwrap();
    writeln!(w, "script d:{}", "61".repeat(MAX_CHUNK + 1)).unwrap();
    writeln!(w, "script d:{}", "61".repeat(MAX_CHUNK)).unwrap();
    writeln!(w, "drain x").unwrap();
    writeln!(w, "drain 10001").unwrap();
    writeln!(w, "poll 3").unwrap();
    writeln!(w, "swap").unwrap();
    writeln!(w, "swap lines").unwrap();
    writeln!(w, "swap nope map").unwrap();
    writeln!(w, "swap len bogus").unwrap();
    writeln!(w, "mapio 1").unwrap();
    writeln!(w, "next 1").unwrap();
    writeln!(w, "swap len parts").unwrap();
    writeln!(w, "poll").unwrap();
    writeln!(w, "next").unwrap();
    writeln!(w, "case c13-badcodec codec=nope").unwrap();
    writeln!(w, "poll").unwrap();
    writeln!(w, "case c13-badinit codec=len init=nope").unwrap();
    writeln!(w, "poll").unwrap();
    writeln!(w, "case c13-badinit3 codec=len init=rbufr:40001:61").unwrap();
    writeln!(w, "poll").unwrap();
    writeln!(w, "case c13-badinit4 codec=len init=rbufr:10:").unwrap();
    writeln!(w, "poll").unwrap();
    writeln!(w, "case c13-badinit5 codec=len init=rbufr:x:61").unwrap();
    writeln!(w, "bdec x").unwrap();
    writeln!(w, "bdec 40001").unwrap();
    writeln!(w, "case c13-badinit2 codec=len init=rbuf:6").unwrap();
    writeln!(w, "poll").unwrap();
    writeln!(w, "case c13-init-new codec=len init=new").unwrap();
    writeln!(w, "script d:0161").unwrap();
    writeln!(w, "poll").unwrap();
}

// ------------------------------------------------------------------------------------------------
// C14: the write side of Framed
// ------------------------------------------------------------------------------------------------

const HW: usize = 8 * 1024;

fn parse_wr(w: &str) -> Option<Wr> {
    if w == "p" {
        Some(Wr::Pending)
    } else if w == "z" {
        Some(Wr::Zero)
    } else if let Some(k) = w.strip_prefix("a:") {
        if k.is_empty() || !k.bytes().all(|c| c.is_ascii_digit()) {
            return None;
        }
        k.parse::<usize>().ok().map(Wr::Accept)
    } else if let Some(k) = w.strip_prefix("e:") {
        parse_kind(k).map(Wr::Err)
    } else {
        None
    }
}

fn parse_fl(w: &str) -> Option<Fl> {
    if w == "ok" {
        Some(Fl::Ok)
    } else if w == "p" {
        Some(Fl::Pending)
    } else if let Some(k) = w.strip_prefix("e:") {
        parse_kind(k).map(Fl::Err)
    } else {
        None
    }
}

fn parse_item(w: &str) -> Option<Vec<u8>> {
    if let Some(n) = w.strip_prefix("n:") {
        if n.is_empty() || !n.bytes().all(|c| c.is_ascii_digit()) {
            return None;
        }
        n.parse::<usize>().ok().filter(|n| *n <= 300000).map(|n| vec![b'a'; n])
    } else {
        unhex(w)
    }
}

/// the encoding the harness expects (independent of the codec implementations)
fn expected_encoding(sel: Sel, item: &[u8]) -> Vec<u8> {
    match sel {
        Sel::Lines => [item, b"\n"].concat(),
        Sel::Bytes => item.to_vec(),
        Sel::Len | Sel::LenX => [&[item.len() as u8][..], item].concat(),
    }
}

#[derive(Clone, Copy, PartialEq, Debug)]
enum SinkOp {
    Ready,
    Flush,
    Close,
}

fn sink_res(r: &Poll<Result<(), io::Error>>) -> String {
    match r {
        Poll::Pending => "pending".into(),
        Poll::Ready(Ok(())) => "ok".into(),
        Poll::Ready(Err(e)) => format!("err:{}", kind_str(e.kind())),
    }
}

/// T3 for C14: evaluated after every op on the real transport record and the real write buffer
fn oracle_c14(s: &mut Session, rep: &mut Report, what: &str) {
    let wb = s.write_buf();
    let io = s.io.0.borrow();
    let mut have = io.written.clone();
    have.extend_from_slice(&io.staged);
    have.extend_from_slice(&wb);
    if have != s.accepted {
        t3x(rep, 
            "C14",
            &format!(
                "after {what}: on the wire {} + staged in the transport {} + buffered {} != encodings of the accepted items {}",
                show_bytes(&io.written),
                show_bytes(&io.staged),
                show_bytes(&wb),
                show_bytes(&s.accepted)
            ),
        );
    }
    if let Some(n) = io.shutdown_early {
        t3x(rep, "C14", &format!("after {what}: poll_shutdown was called while {n} accepted bytes had not been written to the transport"));
    }
    if s.wake.0.load(Ordering::SeqCst) != io.wakes_requested {
        t3x(rep, "C14", &format!("the transport registered {} wake-ups with the context it was given, the task's waker saw {}", io.wakes_requested, s.wake.0.load(Ordering::SeqCst)));
    }
    if io.empty_writes > 0 {
        t3x(rep, "C14", "poll_write was called with an empty buffer");
    }
}

fn step_c14(ws: &[&str], s: &mut Session, rep: &mut Report) -> Option<String> {
    use futures_sink::Sink;
    Some(match ws {
        ["wscript", evs @ ..] => match evs.iter().map(|w| parse_wr(w)).collect::<Option<Vec<Wr>>>() {
            Some(es) => {
                let mut io = s.io.0.borrow_mut();
                io.wscript.extend(es);
                format!("ok {}", io.wscript.len())
            }
            None => "bad-op".into(),
        },
        ["fscript", evs @ ..] => match evs.iter().map(|w| parse_fl(w)).collect::<Option<Vec<Fl>>>() {
            Some(es) => {
                let mut io = s.io.0.borrow_mut();
                io.fscript.extend(es);
                format!("ok {}", io.fscript.len())
            }
            None => "bad-op".into(),
        },
        ["sscript", evs @ ..] => match evs.iter().map(|w| parse_fl(w)).collect::<Option<Vec<Fl>>>() {
            Some(es) => {
                let mut io = s.io.0.borrow_mut();
                io.sscript.extend(es);
                format!("ok {}", io.sscript.len())
            }
            None => "bad-op".into(),
        },
        // `send` = `Sink::start_send`, `write` = the inherent `Framed::write`
        [op @ ("send" | "write"), it] => match parse_item(it) {
            Some(item) => {
                if s.dead {
                    return Some("panic".into());
                }
                let (w0, f0, sh0) = {
                    let io = s.io.0.borrow();
                    (io.n_write, io.n_flush, io.n_shutdown)
                };
                let wb_before = s.write_buf();
                let framed = s.framed.as_mut().unwrap();
                let inherent = *op == "write";
                let r = catch(|| {
                    if inherent {
                        Pin::new(&mut *framed).write(item.clone())
                    } else {
                        Sink::<Vec<u8>>::start_send(Pin::new(&mut *framed), item.clone())
                    }
                });
                let res = match r {
                    Err(_) => {
                        s.dead = true;
                        t3x(rep, "C14", &format!("{op} panicked"));
                        return Some("panic".into());
                    }
                    Ok(Ok(())) => {
                        s.accepted.extend_from_slice(&expected_encoding(s.sel, &item));
                        s.io.0.borrow_mut().expected_total = s.accepted.len();
                        "ok".to_string()
                    }
                    Ok(Err(e)) => {
                        // T3: a rejected item leaves the buffer as it was
                        let wb_after = s.write_buf();
                        if wb_after != wb_before {
                            t3x(rep, "C14", &format!("{op} answered {:?} but changed write_buf from {} to {}", e.kind(), show_bytes(&wb_before), show_bytes(&wb_after)));
                        }
                        format!("err:{}", kind_str(e.kind()))
                    }
                };
                {
                    let io = s.io.0.borrow();
                    if (io.n_write, io.n_flush, io.n_shutdown) != (w0, f0, sh0) {
                        t3x(rep, "C14", &format!("{op} touched the transport"));
                    }
                }
                let o = format!("{res} {}", s.wr_counters(rep));
                oracle_c14(s, rep, "start_send");
                o
            }
            None => "bad-op".into(),
        },
        // `ready`/`flush`/`close` = the `Sink` methods, `xflush`/`xclose` = the inherent `Framed::flush`/`close`
        [opw @ ("ready" | "flush" | "close" | "xflush" | "xclose")] => {
            if s.dead {
                return Some("panic".into());
            }
            let (op, inherent) = match *opw {
                "ready" => (SinkOp::Ready, false),
                "flush" => (SinkOp::Flush, false),
                "xflush" => (SinkOp::Flush, true),
                "close" => (SinkOp::Close, false),
                _ => (SinkOp::Close, true),
            };
            let wb_before = s.write_buf().len();
            let (w0, f0, sh0, z0, p0, e0) = {
                let io = s.io.0.borrow();
                (io.n_write, io.n_flush, io.n_shutdown, io.zero_answers, io.wpending_answers, io.werr_answers.len())
            };
            let waker = Waker::from(s.wake.clone());
            let mut cx = Context::from_waker(&waker);
            let framed = s.framed.as_mut().unwrap();
            let r = catch(|| {
                let f = Pin::new(&mut *framed);
                match (op, inherent) {
                    (SinkOp::Ready, _) => Sink::<Vec<u8>>::poll_ready(f, &mut cx),
                    (SinkOp::Flush, false) => Sink::<Vec<u8>>::poll_flush(f, &mut cx),
                    (SinkOp::Flush, true) => f.flush::<Vec<u8>>(&mut cx),
                    (SinkOp::Close, false) => Sink::<Vec<u8>>::poll_close(f, &mut cx),
                    (SinkOp::Close, true) => f.close::<Vec<u8>>(&mut cx),
                }
            });
            let r = match r {
                Err(_) => {
                    s.dead = true;
                    t3x(rep, "C14", &format!("{op:?} panicked or did not return (watchdog)"));
                    return Some("panic".into());
                }
                Ok(r) => r,
            };
            let is_ok = matches!(r, Poll::Ready(Ok(())));
            let is_pending = r.is_pending();
            let err_kind = match &r {
                Poll::Ready(Err(e)) => Some(e.kind()),
                _ => None,
            };
            let is_write_zero = err_kind == Some(io::ErrorKind::WriteZero);
            let res = sink_res(&r);
            let o = format!("{res} {}", s.wr_counters(rep));
            // T3
            let wb_after = s.write_buf().len();
            let (w1, f1, sh1, z1, p1, errs, shut, staged, wire) = {
                let io = s.io.0.borrow();
                (io.n_write, io.n_flush, io.n_shutdown, io.zero_answers, io.wpending_answers, io.werr_answers[e0..].to_vec(), io.shut, io.staged.len(), io.written.len())
            };
            match op {
                SinkOp::Flush => {
                    if is_ok && wb_after != 0 {
                        t3x(rep, "C14", &format!("poll_flush answered Ready(Ok) with {wb_after} bytes still buffered"));
                    }
                    if is_ok && staged != 0 {
                        t3x(rep, "C14", &format!("poll_flush answered Ready(Ok) with {staged} bytes still staged in the transport: its poll_flush has not completed ({} calls of it during this poll_flush)", f1 - f0));
                    }
                    if is_ok && wire != s.accepted.len() {
                        t3x(rep, "C14", &format!("poll_flush answered Ready(Ok) with {wire} of the {} accepted bytes on the wire", s.accepted.len()));
                    }
                }
                SinkOp::Close => {
                    if is_ok && wb_after != 0 {
                        t3x(rep, "C14", &format!("poll_close answered Ready(Ok) with {wb_after} bytes still buffered (write_buf not flushed)"));
                    }
                    if is_ok && staged != 0 {
                        t3x(rep, "C14", &format!("poll_close answered Ready(Ok) with {staged} bytes still staged in the transport"));
                    }
                    if is_ok && wire != s.accepted.len() {
                        t3x(rep, "C14", &format!("poll_close answered Ready(Ok) with {wire} of the {} accepted bytes on the wire", s.accepted.len()));
                    }
                    if is_ok && !shut {
                        t3x(rep, "C14", "poll_close answered Ready(Ok) but the transport was not shut down");
                    }
                }
                SinkOp::Ready => {
                    if wb_before < HW {
                        if !is_ok || w1 != w0 || f1 != f0 || sh1 != sh0 {
                            t3x(rep, "C14", &format!("poll_ready with {wb_before} < HW bytes buffered answered {res} and touched the transport ({} writes, {} flushes)", w1 - w0, f1 - f0));
                        }
                    } else {
                        if w1 == w0 {
                            t3x(rep, "C14", &format!("poll_ready with {wb_before} >= HW bytes buffered exerted no back-pressure (no write attempted, answered {res})"));
                        }
                        if is_ok && wb_after >= HW {
                            t3x(rep, "C14", &format!("poll_ready at the high-water mark answered Ready(Ok) with {wb_after} bytes still buffered, not below the mark"));
                        }
                    }
                }
            }
            if z1 > z0 && !is_write_zero {
                t3x(rep, "C14", &format!("the transport accepted 0 bytes of a non-empty buffer but {op:?} answered {res}, not WriteZero"));
            }
            // a Pending answer is legitimate only if the transport answered Pending (and took the waker)
            // during this call; an error of the transport is the answer of the call, and no other error
            // (but WriteZero) is invented
            if is_pending && p1 == p0 {
                t3x(rep, "C14", &format!("{op:?} answered Pending although the transport did not answer Pending during the call (no wake-up registered)"));
            }
            if let Some(k) = errs.last() {
                if err_kind != Some(*k) {
                    t3x(rep, "C14", &format!("the transport answered the error {} during {op:?} but the call answered {res}", kind_str(*k)));
                }
            } else if let Some(k) = err_kind {
                if !(is_write_zero && z1 > z0) {
                    t3x(rep, "C14", &format!("{op:?} answered the error {} which the transport did not answer", kind_str(k)));
                }
            }
            oracle_c14(s, rep, &format!("{op:?}"));
            o
        }
        _ => return None,
    })
}

struct WConfig {
    sel: Sel,
    sizes: Vec<usize>,
    wscript: Vec<Wr>,
    fscript: Vec<Fl>,
    sscript: Vec<Fl>,
    /// 0: the `Sink` methods, 1: the inherent `write`/`flush`/`close`, 2: alternating
    api: u8,
    /// the `Framed` is made from `FramedParts::new` (write buffer without capacity)
    parts: bool,
    /// read script for the `poll` ops interleaved with the writes (the same `Framed` is a `Stream`)
    rscript: Vec<Rd>,
}

fn show_wr(e: &Wr) -> String {
    match e {
        Wr::Accept(k) => format!("a:{k}"),
        Wr::Pending => "p".into(),
        Wr::Zero => "z".into(),
        Wr::Err(k) => format!("e:{}", kind_str(*k)),
    }
}
fn show_fl(e: &Fl) -> String {
    match e {
        Fl::Ok => "ok".into(),
        Fl::Pending => "p".into(),
        Fl::Err(k) => format!("e:{}", kind_str(*k)),
    }
}

fn random_wconfig(rng: &mut Rng) -> WConfig {
    let sel = *rng.pick(&[Sel::Lines, Sel::Bytes, Sel::Len, Sel::Lines, Sel::Bytes, Sel::LenX]);
    let size_pool: &[usize] = match rng.below(4) {
        0 => &[0, 1, 2, 3, 5],
        1 => &[1022, 1023, 1024, 1025, 1, 0],
        2 => &[4000, 4095, 4096, 4097, 8190, 8191, 8192, 8193, 100],
        _ => &[0, 1, 7, 254, 255, 300, 1024, 3000, 8191, 9000],
    };
    let sizes = (0..rng.range(1, 5)).map(|_| *rng.pick(size_pool)).collect();
    let acc_pool: &[usize] = &[0, 1, 2, 3, 100, 1023, 1024, 1025, 4096, 8191, 8192, 8193, 100000];
    let kinds = all_kinds();
    let wscript = if rng.chance(1, 4) {
        // a trickling transport: 9..60 writes of 1..16 bytes each, now and then a Pending
        (0..rng.range(9, 60))
            .map(|_| match rng.below(14) {
                0 => Wr::Pending,
                _ => Wr::Accept(*rng.pick(&[1usize, 1, 2, 3, 7, 16])),
            })
            .collect()
    } else {
        (0..rng.below(9))
            .map(|_| match rng.below(10) {
                0 => Wr::Pending,
                1 => Wr::Zero,
                2 => Wr::Err(*rng.pick(&kinds)),
                _ => Wr::Accept(*rng.pick(acc_pool)),
            })
            .collect()
    };
    // the transport's own flush / shutdown: Pending (several times in a row, too) as often as Ok
    let fl = |rng: &mut Rng| {
        (0..rng.below(5))
            .map(|_| match rng.below(5) {
                0 | 1 => Fl::Pending,
                2 => Fl::Err(*rng.pick(&kinds)),
                _ => Fl::Ok,
            })
            .collect::<Vec<Fl>>()
    };
    let fscript = fl(rng);
    let sscript = fl(rng);
    let rscript = if rng.chance(1, 3) {
        (0..rng.range(1, 5))
            .map(|_| match rng.below(6) {
                0 => Rd::Pending,
                1 => Rd::Err(*rng.pick(&kinds)),
                _ => Rd::Data((0..rng.range(1, 6)).map(|_| *rng.pick(&[0u8, 1, 2, b'a', b'\n', b'\r', 0xFF])).collect()),
            })
            .collect()
    } else {
        vec![]
    };
    WConfig { sel, sizes, wscript, fscript, sscript, api: rng.below(3) as u8, parts: rng.chance(1, 4), rscript }
}

/// ops: 0 send, 1 ready, 2 flush, 3 close, 4 codec swap, 5 into_map_io, 6 poll the stream half
fn emit_c14(w: &mut dyn Write, id: &mut usize, tag: &str, cfg: &WConfig, ops: &[u8]) {
    *id += 1;
    // every third case on a transport that reports vectored writes
    // every seventh case on a `Framed` built by `from_parts(FramedParts::with_read_buf(..))` with a
    // non-empty leftover read buffer (a protocol upgrade): the leftover is input, never output
    let init = if cfg.parts {
        " init=parts"
    } else if *id % 7 == 2 {
        [" init=rbuf:474554202f636861740d0a", " init=rbuf:0a", " init=rbufr:9000:6162630a"][*id / 7 % 3]
    } else {
        ""
    };
    writeln!(w, "case c14-{tag}-{} codec={}{}{}{}", *id, cfg.sel.name(), init, if cfg.rscript.is_empty() { "" } else { rd_style(*id) }, if *id % 3 == 1 { " vec=1" } else { "" }).unwrap();
    if !cfg.wscript.is_empty() {
        writeln!(w, "wscript {}", cfg.wscript.iter().map(show_wr).collect::<Vec<_>>().join(" ")).unwrap();
    }
    if !cfg.fscript.is_empty() {
        writeln!(w, "fscript {}", cfg.fscript.iter().map(show_fl).collect::<Vec<_>>().join(" ")).unwrap();
    }
    if !cfg.sscript.is_empty() {
        writeln!(w, "sscript {}", cfg.sscript.iter().map(show_fl).collect::<Vec<_>>().join(" ")).unwrap();
    }
    if !cfg.rscript.is_empty() {
        writeln!(w, "script {}", cfg.rscript.iter().map(show_rd).collect::<Vec<_>>().join(" ")).unwrap();
    }
    let mut k = 0;
    let mut sel = cfg.sel;
    for (n_op, op) in ops.iter().enumerate() {
        let inherent = cfg.api == 1 || (cfg.api == 2 && (n_op + *id) % 2 == 0);
        match op {
            0 => {
                let n = cfg.sizes[k % cfg.sizes.len()];
                k += 1;
                let verb = if inherent { "write" } else { "send" };
                if n <= 4 {
                    writeln!(w, "{verb} {}", hex(&b"a\xc3\xa9b"[..n])).unwrap();
                } else {
                    writeln!(w, "{verb} n:{n}").unwrap();
                }
            }
            1 => writeln!(w, "ready").unwrap(),
            2 => writeln!(w, "{}", if inherent { "xflush" } else { "flush" }).unwrap(),
            3 => writeln!(w, "{}", if inherent { "xclose" } else { "close" }).unwrap(),
            4 => {
                sel = ALL_SELS[(ALL_SELS.iter().position(|c| *c == sel).unwrap() + 1 + (*id + n_op) % 3) % 4];
                writeln!(w, "swap {} {}", sel.name(), VIAS[(*id + n_op) % 3]).unwrap();
            }
            5 => writeln!(w, "mapio").unwrap(),
            _ => writeln!(w, "{}", if inherent { "next" } else { "poll" }).unwrap(),
        }
    }
}

fn gen_c14(a: &Args, w: &mut dyn Write) {
    let thorough = a.tier == "thorough";
    let mut id = 0usize;
    let mut rng = Rng::new(a.seed ^ 0x14);
    use io::ErrorKind as K;
    // hand-written configurations: the marks, partial writes, Pending, zero, errors, every codec; the
    // transport's own flush Pending once / several times / failing (bytes stay staged in the transport)
    let fixed = vec![
        WConfig { sel: Sel::Lines, sizes: vec![1, 0, 3], wscript: vec![], fscript: vec![], sscript: vec![], api: 0, parts: false, rscript: vec![] },
        // the transport takes everything at once, but its flush completes only on the second / fourth call
        WConfig { sel: Sel::Lines, sizes: vec![1, 3], wscript: vec![], fscript: vec![Fl::Pending, Fl::Ok, Fl::Pending, Fl::Pending], sscript: vec![Fl::Pending], api: 0, parts: false, rscript: vec![] },
        WConfig {
            sel: Sel::Lines,
            sizes: vec![2],
            wscript: vec![Wr::Accept(1), Wr::Pending, Wr::Accept(2), Wr::Zero, Wr::Accept(100), Wr::Err(K::BrokenPipe), Wr::Pending, Wr::Accept(1)],
            fscript: vec![Fl::Pending, Fl::Ok, Fl::Err(K::TimedOut)],
            sscript: vec![Fl::Pending, Fl::Ok],
            api: 2,
            parts: false,
            rscript: vec![],
        },
        WConfig {
            sel: Sel::Len,
            sizes: vec![3, 300, 0, 254, 255],
            wscript: vec![Wr::Accept(2), Wr::Accept(2), Wr::Pending, Wr::Accept(0), Wr::Accept(1000)],
            fscript: vec![Fl::Err(K::BrokenPipe)],
            sscript: vec![Fl::Err(K::NotConnected), Fl::Ok],
            api: 0,
            parts: true,
            rscript: vec![],
        },
        WConfig {
            sel: Sel::Bytes,
            sizes: vec![4000, 4200, 100],
            wscript: vec![Wr::Accept(5000), Wr::Pending, Wr::Accept(100000), Wr::Accept(1)],
            fscript: vec![Fl::Ok, Fl::Pending, Fl::Err(K::UnexpectedEof), Fl::Pending],
            sscript: vec![Fl::Pending],
            api: 1,
            parts: false,
            rscript: vec![],
        },
        // 8190 + LF = 8191 < HW: ready without I/O; one more LF = 8192 = HW: ready must flush
        WConfig { sel: Sel::Lines, sizes: vec![8190, 0, 1], wscript: vec![Wr::Accept(8191), Wr::Accept(1), Wr::Pending], fscript: vec![Fl::Pending], sscript: vec![], api: 0, parts: false, rscript: vec![] },
        WConfig {
            sel: Sel::Bytes,
            sizes: vec![1023, 1, 1024, 1025, 8192],
            wscript: vec![Wr::Accept(1024), Wr::Accept(1), Wr::Pending, Wr::Accept(1023), Wr::Err(K::ConnectionReset)],
            fscript: vec![Fl::Ok, Fl::Pending],
            sscript: vec![],
            api: 2,
            parts: false,
            rscript: vec![],
        },
        // more than HW in the buffer, a transport that takes a little and then blocks: still back-pressure
        WConfig { sel: Sel::Bytes, sizes: vec![9192, 3000], wscript: vec![Wr::Accept(100), Wr::Pending, Wr::Accept(900), Wr::Pending, Wr::Accept(10)], fscript: vec![Fl::Pending], sscript: vec![Fl::Ok], api: 0, parts: false, rscript: vec![] },
        // a transport that takes one / a few bytes per write, 12..40 times in a row: one flush needs many
        // partial writes and is complete only when the buffer is empty
        WConfig { sel: Sel::Lines, sizes: vec![11, 30], wscript: vec![Wr::Accept(1); 14], fscript: vec![], sscript: vec![], api: 0, parts: false, rscript: vec![] },
        WConfig {
            sel: Sel::Len,
            sizes: vec![40, 3, 254],
            wscript: (0..40).map(|i| if i == 17 { Wr::Pending } else { Wr::Accept(1 + i % 3) }).collect(),
            fscript: vec![Fl::Pending],
            sscript: vec![Fl::Pending],
            api: 2,
            parts: false,
            rscript: vec![],
        },
    ];
    // (A0) codec swaps between the sends (the buffer is carried over, the encoder changes): every
    // sequence over {send, ready, flush, close, swap, mapio} up to length 4
    all_strings(&[0, 1, 2, 3, 4, 5], 4, &mut |ops| {
        if ops.is_empty() || !ops.contains(&4) && !ops.contains(&5) {
            return;
        }
        for cfg in fixed.iter().take(4) {
            emit_c14(w, &mut id, "swap", cfg, ops);
        }
    });
    // (A) every interleaving of start_send / poll_ready / poll_flush / poll_close up to the bound
    let l = if thorough { 8 } else { 6 };
    let nrand = if thorough { 1 } else { 3 };
    all_strings(&[0, 1, 2, 3], l, &mut |ops| {
        if ops.is_empty() {
            return;
        }
        if ops.len() <= 6 {
            for cfg in &fixed {
                emit_c14(w, &mut id, "seq", cfg, ops);
            }
        } else {
            let which = (id / 7) % fixed.len();
            emit_c14(w, &mut id, "seq", &fixed[which], ops);
        }
        for _ in 0..nrand {
            let cfg = random_wconfig(&mut rng);
            emit_c14(w, &mut id, "seqr", &cfg, ops);
        }
    });
    // (A1) write buffers around and beyond 64 KiB and 128 KiB (one big item; many items sent without
    // asking poll_ready), under transports that take everything / a part and then block / trickle:
    // flush, ready and close may answer Ready(Ok) only with an empty buffer and every byte on the wire
    {
        let big: [usize; 9] = [65534, 65535, 65536, 65537, 70000, 131071, 131072, 131077, 196613];
        let scripts: [&[Wr]; 5] = [
            &[],
            &[Wr::Accept(1000), Wr::Pending],
            &[Wr::Accept(65535), Wr::Accept(1), Wr::Pending, Wr::Accept(3)],
            &[Wr::Accept(65536), Wr::Pending],
            &[Wr::Accept(8192), Wr::Accept(8192), Wr::Accept(8192), Wr::Pending, Wr::Accept(40000), Wr::Accept(1), Wr::Err(K::BrokenPipe)],
        ];
        let mut k = 0usize;
        for total in big {
            for (si, ws) in scripts.iter().enumerate() {
                for shape in 0..3 {
                    k += 1;
                    id += 1;
                    let sel = if k % 3 == 0 { Sel::Lines } else { Sel::Bytes };
                    writeln!(w, "case c14-big-{id} codec={}{}{}", sel.name(), if k % 4 == 1 { " init=parts" } else if k % 4 == 3 { " init=rbuf:6c6566746f766572" } else { "" }, if k % 2 == 0 { " vec=1" } else { "" }).unwrap();
                    if !ws.is_empty() {
                        writeln!(w, "wscript {}", ws.iter().map(show_wr).collect::<Vec<_>>().join(" ")).unwrap();
                    }
                    if si % 2 == 1 {
                        writeln!(w, "fscript p").unwrap();
                    }
                    let enc_extra = if sel == Sel::Lines { 1 } else { 0 };
                    let verb = if k % 2 == 0 { "send" } else { "write" };
                    match shape {
                        0 => writeln!(w, "{verb} n:{}", total - enc_extra).unwrap(),
                        1 => {
                            // many items, no poll_ready in between
                            let piece = 8192usize;
                            let mut left = total;
                            while left > 0 {
                                let n = piece.min(left);
                                if n <= enc_extra {
                                    break;
                                }
                                writeln!(w, "{verb} n:{}", n - enc_extra).unwrap();
                                left -= n;
                            }
                        }
                        _ => {
                            writeln!(w, "{verb} n:{}", 65536 - enc_extra).unwrap();
                            writeln!(w, "{verb} n:{}", total - 65536usize.min(total - 1) ).unwrap();
                        }
                    }
                    for op in [["ready", "flush", "flush", "close", "close"], ["flush", "flush", "flush", "close", "close"], ["close", "close", "close", "flush", "ready"]][k % 3] {
                        writeln!(w, "{op}").unwrap();
                    }
                }
            }
        }
    }
    // (B) longer random runs (shorter when the items are large: the streams stay below ~100 KiB)
    let cases = if thorough { 20000 } else { 2500 };
    for _ in 0..cases {
        let cfg = random_wconfig(&mut rng);
        let big = cfg.sizes.iter().any(|n| *n > 2000);
        let n = if big { rng.range(7, 14) } else { rng.range(7, 40) };
        let with_reads = !cfg.rscript.is_empty();
        let ops: Vec<u8> = (0..n)
            .map(|_| match rng.below(if with_reads { 25 } else { 21 }) {
                0..=7 => 0,
                8..=12 => 1,
                13..=16 => 2,
                17 | 18 => 3,
                19 => 4,
                20 => 5,
                _ => 6,
            })
            .collect();
        emit_c14(w, &mut id, "rand", &cfg, &ops);
    }
    // (C) malformed ops: rejected identically by both sides
    writeln!(w, "case c14-malformed codec=bytes").unwrap();
    for l in [
        "wscript a:", "wscript a:x", "wscript q", "fscript a:1", "sscript z", "send", "send n:", "send n:300001", "send 6", "write", "write n:", "write 6", "ready now", "flush 1", "close x",
        "xflush 1", "xclose x", "send n:20000", "flush", "xflush",
    ] {
        writeln!(w, "{l}").unwrap();
    }
}

// ------------------------------------------------------------------------------------------------

fn gen(a: &Args) {
    let mut w = out_writer(&a.output);
    match a.prop.as_str() {
        "C13" => gen_c13(a, &mut *w),
        "C14" => gen_c14(a, &mut *w),
        "C15" => gen_c15(a, &mut *w),
        p => {
            eprintln!("codec: unknown property {p}");
            std::process::exit(2)
        }
    }
    w.flush().unwrap();
}

fn parse_case(ws: &[&str]) -> Option<(Sel, Init, u8)> {
    let mut sel = Sel::Lines;
    let mut init = Init::New;
    let mut rd = 0u8;
    for w in ws.iter().skip(2) {
        match *w {
            "codec=lines" => sel = Sel::Lines,
            "codec=bytes" => sel = Sel::Bytes,
            "codec=len" => sel = Sel::Len,
            "codec=lenx" => sel = Sel::LenX,
            x if x.starts_with("codec=") => return None,
            // how the transport fills the `ReadBuf` (no effect on what is delivered: the model ignores it)
            "rd=put" => rd = 0,
            "rd=init" => rd = 1,
            "rd=initk" => rd = 2,
            "rd=mix" => rd = 3,
            "init=new" => init = Init::New,
            "init=parts" => init = Init::Parts,
            x if x.starts_with("init=rbuf:") => init = Init::Rbuf(unhex(&x[10..]).filter(|b| b.len() <= MAX_CHUNK)?),
            // a BIG handed-over buffer: `init=rbufr:<len>:<hex unit>` = the unit repeated, cut at <len> bytes
            x if x.starts_with("init=rbufr:") => {
                let (n, unit) = x[11..].split_once(':')?;
                if n.is_empty() || !n.bytes().all(|c| c.is_ascii_digit()) {
                    return None;
                }
                let n = n.parse::<usize>().ok().filter(|n| *n <= 40000)?;
                let unit = unhex(unit).filter(|u| !u.is_empty() && u.len() <= 256)?;
                init = Init::Rbuf(unit.iter().copied().cycle().take(n).collect());
            }
            x if x.starts_with("init=") => return None,
            _ => {}
        }
    }
    Some((sel, init, rd))
}

fn run(a: &Args) {
    silence_panics();
    let mut rep = Report::new(&a.output);
    let mut sess = Session::new(Sel::Lines, Init::New, 0);
    for line in in_lines(&a.input) {
        let ws: Vec<&str> = line.split_whitespace().collect();
        let real: String = match ws.as_slice() {
            ["case", ..] => match {
                PROP_OVERRIDE.with(|o| {
                    o.set(ws.iter().skip(2).find_map(|w| match *w {
                        "prop=C13" => Some("C13"),
                        "prop=C14" => Some("C14"),
                        "prop=C15" => Some("C15"),
                        _ => None,
                    }))
                });
                VECTORED.with(|v| v.set(ws.iter().skip(2).any(|w| *w == "vec=1")));
                parse_case(&ws)
            } {
                Some((sel, init, rd)) => {
                    sess = Session::new(sel, init, rd);
                    "ok".into()
                }
                None => {
                    sess = Session::new(Sel::Lines, Init::New, 0);
                    "bad-op".into()
                }
            },
            _ => {
                let r = catch(|| {
                    if let Some(o) = step_c13(&ws, &mut sess, &mut rep) {
                        return Some(o);
                    }
                    if let Some(o) = step_c14(&ws, &mut sess, &mut rep) {
                        return Some(o);
                    }
                    step_c15(&ws, &mut rep)
                });
                match r {
                    Ok(Some(o)) => o,
                    Ok(None) => "bad-op".into(),
                    Err(_) => "panic".into(),
                }
            }
        };
        rep.obs(&line, &real);
    }
    rep.finish();
}

fn main() {
    let a = parse_args();
    match a.cmd.as_str() {
        "gen" => gen(&a),
        "run" => run(&a),
        _ => {
            eprintln!("usage: codec gen|run --prop Cxx ...");
            std::process::exit(2)
        }
    }
}
