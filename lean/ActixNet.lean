-- This module serves as the root of the `ActixNet` library.
-- Import modules here that should be built as part of the library.
import ActixNet.Basic
