//! Shared helpers for the correspondence harness binaries.
//!
//! Every binary has two sub-commands:
//!   gen --prop Cxx --tier quick|thorough --seed N --out FILE   write an ops file (cases)
//!   run --prop Cxx --in FILE --out FILE                        execute the ops against the REAL code
//! `run` writes one line `<op>\t<real observation>` per op, and lines
//! `#T3 prop=Cxx case=<name> <message>` whenever the property oracle fails on the real behaviour.

use std::{
    fs::File,
    io::{BufRead, BufReader, BufWriter, Write},
    panic::{self, AssertUnwindSafe},
};

/// splitmix64: the single PRNG every random choice derives from
#[derive(Clone)]
pub struct Rng(pub u64);
impl Rng {
    pub fn new(seed: u64) -> Self {
        Rng(seed.wrapping_mul(0x9E37_79B9_7F4A_7C15) ^ 0xD1B5_4A32_D192_ED03)
    }
    pub fn next(&mut self) -> u64 {
        self.0 = self.0.wrapping_add(0x9E37_79B9_7F4A_7C15);
        let mut z = self.0;
        z = (z ^ (z >> 30)).wrapping_mul(0xBF58_476D_1CE4_E5B9);
        z = (z ^ (z >> 27)).wrapping_mul(0x94D0_49BB_1331_11EB);
        z ^ (z >> 31)
    }
    pub fn below(&mut self, n: usize) -> usize {
        if n == 0 {
            0
        } else {
            (self.next() % n as u64) as usize
        }
    }
    pub fn range(&mut self, lo: usize, hi_incl: usize) -> usize {
        lo + self.below(hi_incl - lo + 1)
    }
    pub fn chance(&mut self, num: usize, den: usize) -> bool {
        self.below(den) < num
    }
    pub fn pick<'a, T>(&mut self, xs: &'a [T]) -> &'a T {
        &xs[self.below(xs.len())]
    }
}

pub struct Args {
    pub cmd: String,
    pub prop: String,
    pub tier: String,
    pub seed: u64,
    pub input: Option<String>,
    pub output: Option<String>,
}

pub fn parse_args() -> Args {
    let mut a = Args {
        cmd: String::new(),
        prop: String::new(),
        tier: "quick".into(),
        seed: 0,
        input: None,
        output: None,
    };
    let mut it = std::env::args().skip(1);
    a.cmd = it.next().unwrap_or_default();
    while let Some(k) = it.next() {
        let v = it.next().unwrap_or_default();
        match k.as_str() {
            "--prop" => a.prop = v,
            "--tier" => a.tier = v,
            "--seed" => a.seed = v.parse().unwrap_or(0),
            "--in" => a.input = Some(v),
            "--out" => a.output = Some(v),
            _ => {
                eprintln!("unknown argument {k}");
                std::process::exit(2)
            }
        }
    }
    a
}

pub fn hex(bs: &[u8]) -> String {
    if bs.is_empty() {
        return "-".into();
    }
    let mut s = String::with_capacity(bs.len() * 2);
    for b in bs {
        s.push_str(&format!("{b:02x}"));
    }
    s
}

pub fn unhex(s: &str) -> Option<Vec<u8>> {
    if s == "-" {
        return Some(vec![]);
    }
    if s.len() % 2 != 0 {
        return None;
    }
    (0..s.len() / 2)
        .map(|i| u8::from_str_radix(s.get(2 * i..2 * i + 2)?, 16).ok())
        .collect()
}

pub fn out_writer(path: &Option<String>) -> Box<dyn Write> {
    match path {
        Some(p) => Box::new(BufWriter::with_capacity(1 << 20, File::create(p).expect("create output"))),
        None => Box::new(BufWriter::new(std::io::stdout())),
    }
}

pub fn in_lines(path: &Option<String>) -> Box<dyn Iterator<Item = String>> {
    match path {
        Some(p) => Box::new(
            BufReader::with_capacity(1 << 20, File::open(p).expect("open input"))
                .lines()
                .map(|l| l.unwrap()),
        ),
        None => Box::new(std::io::stdin().lock().lines().map(|l| l.unwrap())),
    }
}

/// run `f`, turning a panic into `Err(message)`; panic output is silenced
pub fn catch<T>(f: impl FnOnce() -> T) -> Result<T, String> {
    panic::catch_unwind(AssertUnwindSafe(f)).map_err(|e| {
        if let Some(s) = e.downcast_ref::<&str>() {
            s.to_string()
        } else if let Some(s) = e.downcast_ref::<String>() {
            s.clone()
        } else {
            "panic".into()
        }
    })
}

pub fn silence_panics() {
    panic::set_hook(Box::new(|_| {}));
}

/// Output of `run`: op/observation pairs plus oracle failures.
pub struct Report {
    w: Box<dyn Write>,
    pub case: String,
    pub t3_failures: u64,
}
impl Report {
    pub fn new(path: &Option<String>) -> Self {
        Report { w: out_writer(path), case: String::new(), t3_failures: 0 }
    }
    pub fn obs(&mut self, op: &str, real: &str) {
        if op.starts_with("case") {
            self.case = op.split_whitespace().nth(1).unwrap_or("?").to_string();
        }
        writeln!(self.w, "{op}\t{real}").unwrap();
    }
    pub fn t3(&mut self, prop: &str, msg: &str) {
        self.t3_failures += 1;
        writeln!(self.w, "#T3 prop={prop} case={} {}", self.case, msg.replace('\n', " ")).unwrap();
    }
    pub fn note(&mut self, msg: &str) {
        writeln!(self.w, "#NOTE {}", msg.replace('\n', " ")).unwrap();
    }
    pub fn flush(&mut self) {
        let _ = self.w.flush();
    }
    pub fn finish(mut self) {
        self.w.flush().unwrap();
    }
}
