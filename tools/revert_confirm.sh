#!/bin/sh
# tools/revert_confirm.sh <Fn> <Cxx>: run ./check Cxx against /repo with the fix for finding Fn reverted; record the result
F=$1; P=$2
OUT=/verif/.build/revert-$F.log
/verif/tools/mutcheck.sh /verif/seeded/$F-revert/patch.diff $P > $OUT 2>&1; RC=$?
V=$(grep -c '^VIOLATION' $OUT); N=$(grep -c 'no-failing-input-found' $OUT)
python3 - <<PY
import json
m='/verif/seeded/$F-revert/meta.json'
d=json.load(open(m))
d.update({"property":"$P","checked_with":"$P","check_exit_code":$RC,"check_violation_lines":$V,"check_no_failing_input_found":$N,"ran":"tools/revert_confirm.sh $F $P (isolated ./check via tools/mutcheck.sh against /repo with the fix reverted)"})
json.dump(d,open(m,'w'),indent=1)
PY
echo "$F $P rc=$RC violations=$V without-input=$N"
