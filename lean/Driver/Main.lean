import Driver.Util
import Driver.Bs
import Driver.Codec
import Driver.Svc
import Driver.Local
import Driver.Rt
import Driver.Tls
import Driver.Srv
import Driver.Worker
/-! `amodel <engine>`: reads one operation per line on stdin, prints one observation per line.
Each engine lives in its own `Driver/<Engine>.lean` exposing `init` and `step`. -/
open Driver

def main (args : List String) : IO UInt32 := do
  let stdin ← IO.getStdin
  let stdout ← IO.getStdout
  match args with
  | ["bs"] => loop stdin stdout Driver.Bs.step Driver.Bs.init; return 0
  | ["codec"] => loop stdin stdout Driver.Codec.step Driver.Codec.init; return 0
  | ["svc"] => loop stdin stdout Driver.Svc.step Driver.Svc.init; return 0
  | ["local"] => loop stdin stdout Driver.Local.step Driver.Local.init; return 0
  | ["rt"] => loop stdin stdout Driver.Rt.step Driver.Rt.init; return 0
  | ["tls"] => loop stdin stdout Driver.Tls.step Driver.Tls.init; return 0
  | ["srv"] => loop stdin stdout Driver.Srv.step Driver.Srv.init; return 0
  | ["worker"] => loop stdin stdout Driver.Worker.step Driver.Worker.init; return 0
  | _ => IO.eprintln "usage: amodel <engine>"; return 2
