import ActixNet.Lemmas.SrvLog
/-!
# The structural invariant of the accept loop: no panic, with worker deaths and replacements

`NP cfg s` (`Sound` + "the sticky fault is not a panic") is preserved by every operation of the
stepped system — every environment action including `die` and `restart`, at every yield point — with
NO fault-freedom assumption.  `Sound`:
* every worker index is accounted for exactly once (it has a handle, or its replacement handle is on
  its way in the waker queue, or its fault is reported and not yet handled) — `ledgerOf … Nodup`;
* **every set availability bit has a handle** (the invariant the stale-notification defect broke);
* `next` indexes into `handles` whenever there is a handle.
-/
namespace ActixNet.Srv
open ActixNet

theorem swapRemove_perm : ∀ (l : List Nat) (i : Nat), i < l.length → (swapRemove l i).Perm (l.eraseIdx i) := by
  intro l
  induction l with
  | nil => intro i h; simp at h
  | cons x xs ih =>
    intro i hi
    cases xs with
    | nil =>
      have : i = 0 := by simp at hi; omega
      subst this
      simp [swapRemove]
    | cons y ys =>
      cases i with
      | zero =>
        simp only [swapRemove, List.set_cons_zero, List.eraseIdx_cons_zero]
        have hl : (x :: y :: ys).getLast?.getD 0 = (y :: ys).getLast (by simp) := by
          rw [List.getLast?_cons_cons, List.getLast?_eq_some_getLast (by simp)]; rfl
        rw [hl]
        have : ((y :: ys).getLast (by simp) :: y :: ys).dropLast = (y :: ys).getLast (by simp) :: (y :: ys).dropLast := by
          simp [List.dropLast]
        rw [this]
        have h2 : (y :: ys) = (y :: ys).dropLast ++ [(y :: ys).getLast (by simp)] :=
          (List.dropLast_concat_getLast (by simp)).symm
        conv => rhs; rw [h2]
        exact List.perm_append_comm (l₁ := [(y :: ys).getLast (by simp)]) (l₂ := (y :: ys).dropLast)
      | succ j =>
        have hj : j < (y :: ys).length := by simp at hi ⊢; omega
        have := ih j hj
        simp only [swapRemove, List.set_cons_succ, List.eraseIdx_cons_succ] at this ⊢
        have hl : (x :: y :: ys).getLast?.getD 0 = (y :: ys).getLast?.getD 0 := by
          simp [List.getLast?_cons_cons]
        rw [hl]
        have hne : (y :: ys).set j ((y :: ys).getLast?.getD 0) ≠ [] := by
          intro h; have := congrArg List.length h; simp at this
        rw [List.dropLast_cons_of_ne_nil hne]
        exact List.Perm.cons x this

theorem perm_cons_eraseIdx (l : List Nat) (k : Nat) (h : k < l.length) : l.Perm (l[k] :: l.eraseIdx k) := by
  have h1 : l = l.take k ++ l[k] :: l.drop (k + 1) := by
    conv => lhs; rw [← List.take_append_drop k l]
    rw [List.drop_eq_getElem_cons h]
  rw [List.eraseIdx_eq_take_drop_succ]
  conv => lhs; rw [h1]
  exact List.perm_middle

theorem perm_cons_swapRemove (l : List Nat) (k : Nat) (h : k < l.length) : l.Perm (l[k] :: swapRemove l k) :=
  (perm_cons_eraseIdx l k h).trans (List.Perm.cons _ (swapRemove_perm l k h).symm)


/-! ### The structural invariant behind "the accept thread never panics" -/

def pendingWorkers (wq : List Interest) : List Nat :=
  wq.filterMap (fun i => match i with | .worker w => some w | _ => none)

/-- the part of the state the structural invariant talks about -/
structure View where
  idxOf : Nat → Nat
  nWk : Nat
  handles : List Nat
  next : Nat
  avail : Nat → Bool
  pend : List Nat
  flog : List Nat
  restarted : Nat

def view (s : St) : View :=
  ⟨fun w => (s.wk w).idx, s.nWk, s.handles, s.next, s.avail, pendingWorkers s.wq, s.faultedLog, s.restarted⟩

/-- every worker index is accounted for exactly once: it has a handle, or a replacement handle is on
its way to the accept thread, or its fault has been reported and not yet handled by the server -/
def ledgerOf (v : View) : List Nat := v.handles.map v.idxOf ++ (v.pend.map v.idxOf ++ v.flog.drop v.restarted)

structure SoundV (n : Nat) (v : View) : Prop where
  hlt : ∀ w ∈ v.handles, w < v.nWk
  plt : ∀ w ∈ v.pend, w < v.nWk
  idxlt : ∀ w, w < v.nWk → v.idxOf w < n
  flt : ∀ i ∈ v.flog, i < n
  ledger : (ledgerOf v).Nodup
  bit : ∀ i, v.avail i = true → ∃ w ∈ v.handles, v.idxOf w = i
  next1 : v.handles ≠ [] → v.next < v.handles.length
  next0 : v.handles = [] → v.next = 0
  rle : v.restarted ≤ v.flog.length

def Sound (cfg : Cfg) (s : St) : Prop := SoundV cfg.nIdx (view s)

theorem sound_of_view_eq {cfg s s'} (h : view s' = view s) (g : Sound cfg s) : Sound cfg s' := by
  unfold Sound at *; rw [h]; exact g

theorem SoundV.setAvailFalse {n v} (h : SoundV n v) (i : Nat) : SoundV n { v with avail := upd v.avail i false } := by
  refine ⟨h.hlt, h.plt, h.idxlt, h.flt, h.ledger, ?_, h.next1, h.next0, h.rle⟩
  intro j hj
  by_cases hji : j = i
  · subst hji; simp [upd] at hj
  · simp only [upd, hji, ↓reduceIte] at hj; exact h.bit j hj

theorem SoundV.setAvailTrue {n v} (h : SoundV n v) (i : Nat) (hw : ∃ w ∈ v.handles, v.idxOf w = i) :
    SoundV n { v with avail := upd v.avail i true } := by
  refine ⟨h.hlt, h.plt, h.idxlt, h.flt, h.ledger, ?_, h.next1, h.next0, h.rle⟩
  intro j hj
  by_cases hji : j = i
  · subst hji; exact hw
  · simp only [upd, hji, ↓reduceIte] at hj; exact h.bit j hj

theorem SoundV.setNext {n v} (h : SoundV n v) (k : Nat) (h1 : v.handles ≠ [] → k < v.handles.length)
    (h0 : v.handles = [] → k = 0) : SoundV n { v with next := k } :=
  ⟨h.hlt, h.plt, h.idxlt, h.flt, h.ledger, h.bit, h1, h0, h.rle⟩

theorem handles_nodup {n v} (h : SoundV n v) : (v.handles.map v.idxOf).Nodup := by
  have := h.ledger; unfold ledgerOf at this
  exact (List.nodup_append.mp this).1

/-- removing the handle at `next` (the faulted worker): its index moves from "has a handle" to
"reported" -/
theorem SoundV.remove {n v} (h : SoundV n v) (w : Nat) (hw : v.handles[v.next]? = some w) (k : Nat)
    (hk1 : swapRemove v.handles v.next ≠ [] → k < (swapRemove v.handles v.next).length)
    (hk0 : swapRemove v.handles v.next = [] → k = 0) :
    SoundV n { v with handles := swapRemove v.handles v.next, flog := v.flog ++ [v.idxOf w],
                      avail := upd v.avail (v.idxOf w) false, next := k } := by
  obtain ⟨hk, hget⟩ := List.getElem?_eq_some_iff.mp hw
  have hperm := perm_cons_swapRemove v.handles v.next hk
  rw [hget] at hperm
  have hmem : ∀ x, x ∈ swapRemove v.handles v.next → x ∈ v.handles := fun x hx =>
    (hperm.mem_iff).mpr (List.mem_cons_of_mem _ hx)
  have hwmem : w ∈ v.handles := (hperm.mem_iff).mpr List.mem_cons_self
  have hlen : (swapRemove v.handles v.next).length = v.handles.length - 1 := swapRemove_length _ _
  refine ⟨fun x hx => h.hlt x (hmem x hx), h.plt, h.idxlt, ?_, ?_, ?_, ?_, ?_, ?_⟩
  · intro i hi
    rcases List.mem_append.mp hi with hi | hi
    · exact h.flt i hi
    · simp at hi; subst hi; exact h.idxlt w (h.hlt w hwmem)
  · -- ledger
    have hl := h.ledger
    unfold ledgerOf at hl ⊢
    simp only
    have hd : (v.flog ++ [v.idxOf w]).drop v.restarted = v.flog.drop v.restarted ++ [v.idxOf w] :=
      List.drop_append_of_le_length h.rle
    rw [hd]
    have p1 : (v.handles.map v.idxOf).Perm (v.idxOf w :: (swapRemove v.handles v.next).map v.idxOf) := by
      have := hperm.map v.idxOf; simpa using this
    have p2 : (v.handles.map v.idxOf ++ (v.pend.map v.idxOf ++ v.flog.drop v.restarted)).Perm
        ((swapRemove v.handles v.next).map v.idxOf ++ (v.pend.map v.idxOf ++ (v.flog.drop v.restarted ++ [v.idxOf w]))) := by
      refine (List.Perm.append p1 (List.Perm.refl _)).trans ?_
      simp only [List.cons_append]
      refine (List.perm_append_singleton (v.idxOf w) _).symm.trans ?_
      simp only [List.append_assoc]
      exact List.Perm.refl _
    exact (p2.nodup_iff).mp hl
  · -- bits
    intro i hi
    by_cases hii : i = v.idxOf w
    · subst hii; simp [upd] at hi
    · simp only [upd, hii, ↓reduceIte] at hi
      obtain ⟨w', hw', hidx⟩ := h.bit i hi
      refine ⟨w', ?_, hidx⟩
      have : w' ∈ w :: swapRemove v.handles v.next := (hperm.mem_iff).mp hw'
      rcases List.mem_cons.mp this with rfl | h2
      · exact absurd hidx.symm hii
      · exact h2
  · exact hk1
  · exact hk0
  · simp only [List.length_append, List.length_singleton]; have := h.rle; omega


/-- the replacement handle joins: its index moves from "on its way" to "has a handle" -/
theorem SoundV.addWorker {n v} (h : SoundV n v) (w : Nat) (p' : List Nat) (hp : v.pend = w :: p') :
    SoundV n { v with handles := v.handles ++ [w], pend := p', avail := upd v.avail (v.idxOf w) true } := by
  have hwlt : w < v.nWk := h.plt w (by rw [hp]; exact List.mem_cons_self)
  refine ⟨?_, fun x hx => h.plt x (by rw [hp]; exact List.mem_cons_of_mem _ hx), h.idxlt, h.flt, ?_, ?_, ?_, ?_, h.rle⟩
  · intro x hx
    rcases List.mem_append.mp hx with hx | hx
    · exact h.hlt x hx
    · simp at hx; subst hx; exact hwlt
  · have hl := h.ledger
    unfold ledgerOf at hl ⊢
    simp only [hp, List.map_cons, List.map_append, List.map_nil] at hl ⊢
    have p : (List.map v.idxOf v.handles ++ (v.idxOf w :: List.map v.idxOf p' ++ List.drop v.restarted v.flog)).Perm
        (List.map v.idxOf v.handles ++ [v.idxOf w] ++ (List.map v.idxOf p' ++ List.drop v.restarted v.flog)) := by
      simp only [List.append_assoc, List.cons_append, List.nil_append]
      exact List.Perm.refl _
    exact (p.nodup_iff).mp hl
  · intro i hi
    by_cases hii : i = v.idxOf w
    · subst hii; exact ⟨w, by simp, rfl⟩
    · simp only [upd, hii, ↓reduceIte] at hi
      obtain ⟨w', hw', hidx⟩ := h.bit i hi
      exact ⟨w', List.mem_append_left _ hw', hidx⟩
  · intro _
    simp only [List.length_append, List.length_singleton]
    by_cases he : v.handles = []
    · have := h.next0 he; simp [he]; omega
    · have := h.next1 he; omega
  · intro he; simp at he

/-- the server starts a replacement for the oldest unhandled fault report: the index moves from
"reported" to "on its way" -/
theorem SoundV.restart {n v} (h : SoundV n v) (idx : Nat) (hr : v.restarted < v.flog.length)
    (hidx : v.flog[v.restarted] = idx) :
    SoundV n { v with idxOf := upd v.idxOf v.nWk idx, nWk := v.nWk + 1, pend := v.pend ++ [v.nWk],
                      restarted := v.restarted + 1 } := by
  have hsame : ∀ w, w < v.nWk → upd v.idxOf v.nWk idx w = v.idxOf w := by
    intro w hw; simp [upd]; omega
  have hmapH : v.handles.map (upd v.idxOf v.nWk idx) = v.handles.map v.idxOf :=
    List.map_congr_left (fun w hw => hsame w (h.hlt w hw))
  have hmapP : v.pend.map (upd v.idxOf v.nWk idx) = v.pend.map v.idxOf :=
    List.map_congr_left (fun w hw => hsame w (h.plt w hw))
  have hidxlt : idx < n := by rw [← hidx]; exact h.flt _ (List.getElem_mem _)
  refine ⟨fun w hw => Nat.lt_succ_of_lt (h.hlt w hw), ?_, ?_, h.flt, ?_, ?_, h.next1, h.next0, by simp only; omega⟩
  · intro w hw
    rcases List.mem_append.mp hw with hw | hw
    · exact Nat.lt_succ_of_lt (h.plt w hw)
    · simp at hw; subst hw; exact Nat.lt_succ_self _
  · intro w hw
    simp only at hw ⊢
    by_cases hwn : w = v.nWk
    · subst hwn; simpa [upd] using hidxlt
    · rw [hsame w (by omega)]; exact h.idxlt w (by omega)
  · have hl := h.ledger
    unfold ledgerOf at hl ⊢
    simp only [List.map_append, List.map_cons, List.map_nil, hmapH, hmapP, upd_same]
    have hd : v.flog.drop v.restarted = idx :: v.flog.drop (v.restarted + 1) := by
      rw [List.drop_eq_getElem_cons hr, hidx]
    rw [hd] at hl
    have p : (List.map v.idxOf v.handles ++ (List.map v.idxOf v.pend ++ idx :: List.drop (v.restarted + 1) v.flog)).Perm
        (List.map v.idxOf v.handles ++ (List.map v.idxOf v.pend ++ [idx] ++ List.drop (v.restarted + 1) v.flog)) := by
      simp only [List.append_assoc, List.cons_append, List.nil_append]
      exact List.Perm.refl _
    exact (p.nodup_iff).mp hl
  · intro i hi
    obtain ⟨w, hw, hwi⟩ := h.bit i hi
    exact ⟨w, hw, by simp only; rw [hsame w (h.hlt w hw)]; exact hwi⟩


/-! ### state level -/

def NoPanic (f : Option Fault) : Prop :=
  f ≠ some .panicIndex ∧ f ≠ some .panicRem ∧ f ≠ some .panicOffset

structure NP (cfg : Cfg) (s : St) : Prop where
  sound : Sound cfg s
  nopanic : NoPanic s.fault

theorem pendingWorkers_append (a b : List Interest) : pendingWorkers (a ++ b) = pendingWorkers a ++ pendingWorkers b := by
  simp [pendingWorkers, List.filterMap_append]

/-- discharge `view s' = view s` when `s'` differs from `s` by a worker record (same idx) and/or non-`Worker` interests -/
macro "view_same" w:term : tactic => `(tactic|
  (simp only [view, pushWq]
   congr 1 <;> first
     | (funext v; by_cases hv : v = $w <;> simp [upd, hv])
     | simp [pendingWorkers, List.filterMap_append]))

theorem envStep_np (cfg : Cfg) (s : St) (a : EnvAct) (h : NP cfg s) : NP cfg (envStep cfg s a).1 := by
  have same : ∀ s' : St, view s' = view s → s'.fault = s.fault → NP cfg s' :=
    fun s' hv hf => ⟨sound_of_view_eq hv h.sound, by rw [hf]; exact h.nopanic⟩
  cases a with
  | connect l => simp only [envStep]; split; · split <;> exact same _ rfl rfl
                 · exact h
  | recv w =>
    simp only [envStep]; split
    · split
      · split
        · exact h
        · exact same _ (by view_same w) rfl
      · exact h
    · exact h
  | finish w c =>
    simp only [envStep]; split
    · split
      · exact h
      · exact same _ (by view_same w) rfl
    · exact h
  | push w =>
    simp only [envStep]; split
    · split
      · exact same _ (by view_same w) rfl
      · exact h
    · exact h
  | finishNow w c =>
    simp only [envStep]; split
    · split
      · exact h
      · split
        · exact same _ (by view_same w) rfl
        · exact same _ (by view_same w) rfl
    · exact h
  | die w =>
    simp only [envStep]; split
    · split
      · exact same _ (by view_same w) rfl
      · exact h
    · exact h
  | cmd i =>
    cases i with
    | pause => exact same _ (by simp [envStep, view, pushWq, pendingWorkers_append, pendingWorkers]) rfl
    | resume => exact same _ (by simp [envStep, view, pushWq, pendingWorkers_append, pendingWorkers]) rfl
    | stop => exact same _ (by simp [envStep, view, pushWq, pendingWorkers_append, pendingWorkers]) rfl
    | workerAvail k => exact h
    | worker k => exact h
  | restart idx =>
    simp only [envStep]; split
    · rename_i hc
      refine ⟨?_, h.nopanic⟩
      have hr : s.restarted < s.faultedLog.length := hc.1
      have hidx : s.faultedLog[s.restarted] = idx := by
        have := hc.2; rw [List.getD_eq_getElem?_getD, List.getElem?_eq_getElem hr] at this; simpa using this
      have := SoundV.restart h.sound idx hr hidx
      unfold Sound
      have hv : view (pushWq { s with wk := upd s.wk s.nWk (initWk idx), nWk := s.nWk + 1, restarted := s.restarted + 1 } (.worker s.nWk)) =
          { view s with idxOf := upd (view s).idxOf (view s).nWk idx, nWk := (view s).nWk + 1,
                        pend := (view s).pend ++ [(view s).nWk], restarted := (view s).restarted + 1 } := by
        simp only [view, pushWq]
        congr 1
        · funext w
          by_cases hw : w = s.nWk <;> simp [upd, hw, initWk]
        · simp [pendingWorkers, List.filterMap_append]
      rw [hv]; exact this
    · exact h
  | advance ms => exact same _ rfl rfl
  | inject l e => simp only [envStep]; split <;> first | exact same _ rfl rfl | exact h


theorem runEnv_np (cfg : Cfg) : ∀ (as : List EnvAct) (s : St), NP cfg s → NP cfg (runEnv cfg s as) := by
  intro as; induction as with
  | nil => intro s h; exact h
  | cons a as ih =>
    intro s h
    simp only [runEnv]
    exact ih _ ⟨sound_of_view_eq rfl (envStep_np cfg s a h).sound, (envStep_np cfg s a h).nopanic⟩

theorem yieldPt_np (cfg : Cfg) (s : St) (h : NP cfg s) : NP cfg (yieldPt cfg s) := by
  unfold yieldPt; split
  · exact ⟨sound_of_view_eq rfl h.sound, h.nopanic⟩
  · exact runEnv_np cfg _ _ ⟨sound_of_view_eq rfl h.sound, h.nopanic⟩

theorem envStep_avail (cfg : Cfg) (s : St) (a : EnvAct) : (envStep cfg s a).1.avail = s.avail := by
  cases a <;> simp only [envStep] <;> (repeat' split) <;> first | rfl | (simp [pushWq])
theorem runEnv_avail (cfg : Cfg) : ∀ (as : List EnvAct) (s : St), (runEnv cfg s as).avail = s.avail := by
  intro as; induction as with
  | nil => intro s; rfl
  | cons a as ih => intro s; simp only [runEnv]; rw [ih]; exact envStep_avail cfg s a
theorem yieldPt_avail (cfg : Cfg) (s : St) : (yieldPt cfg s).avail = s.avail := by
  unfold yieldPt; split
  · rfl
  · rw [runEnv_avail]

/-- view and fault untouched -/
def VFrame (s s' : St) : Prop := view s' = view s ∧ s'.fault = s.fault

theorem NP.vframe {cfg s s'} (f : VFrame s s') (h : NP cfg s) : NP cfg s' :=
  ⟨sound_of_view_eq f.1 h.sound, by rw [f.2]; exact h.nopanic⟩
theorem VFrame.refl (s : St) : VFrame s s := ⟨rfl, rfl⟩
theorem VFrame.trans {a b c : St} (h1 : VFrame a b) (h2 : VFrame b c) : VFrame a c :=
  ⟨h2.1.trans h1.1, h2.2.trans h1.2⟩

theorem register_vframe (s : St) (l : Nat) : VFrame s (register s l) := by
  simp only [register]; split <;> exact ⟨rfl, rfl⟩
theorem deregister_vframe (s : St) (l : Nat) : VFrame s (deregister s l) := ⟨rfl, rfl⟩
theorem setTimeout_vframe (s : St) (d : Nat) : VFrame s (setTimeout s d) := by
  unfold setTimeout; split
  · split <;> exact ⟨rfl, rfl⟩
  · exact ⟨rfl, rfl⟩
theorem deregisterAllFrom_vframe : ∀ (ls : List Nat) (s : St), VFrame s (deregisterAllFrom s ls) := by
  intro ls; induction ls with
  | nil => intro s; exact VFrame.refl s
  | cons l ls ih =>
    intro s; simp only [deregisterAllFrom]
    refine VFrame.trans ?_ (ih _)
    split
    · exact VFrame.trans ⟨rfl, rfl⟩ (deregister_vframe _ l)
    · exact ⟨rfl, rfl⟩
theorem registerAllFrom_vframe : ∀ (ls : List Nat) (s : St), VFrame s (registerAllFrom s ls) := by
  intro ls; induction ls with
  | nil => intro s; exact VFrame.refl s
  | cons l ls ih =>
    intro s; simp only [registerAllFrom]
    have h1 : VFrame s { s with lst := upd s.lst l { s.lst l with deadline := none } } := ⟨rfl, rfl⟩
    exact VFrame.trans (VFrame.trans h1 (register_vframe _ l)) (ih _)
theorem processTimeoutFrom_vframe (now : Nat) : ∀ (ls : List Nat) (s : St), VFrame s (processTimeoutFrom s now ls) := by
  intro ls; induction ls with
  | nil => intro s; exact VFrame.refl s
  | cons l ls ih =>
    intro s; simp only [processTimeoutFrom]
    split
    · exact ih _
    · refine VFrame.trans ?_ (ih _)
      split
      · exact VFrame.trans ⟨rfl, rfl⟩ (setTimeout_vframe _ _)
      · split
        · exact VFrame.trans ⟨rfl, rfl⟩ (register_vframe _ _)
        · exact ⟨rfl, rfl⟩
theorem processTimeout_vframe (s : St) : VFrame s (processTimeout s) := by
  unfold processTimeout; split
  · exact VFrame.refl s
  · exact VFrame.trans ⟨rfl, rfl⟩ (processTimeoutFrom_vframe _ _ _)
theorem acceptSys_vframe (s : St) (l : Nat) : VFrame s (acceptSys s l).1 := by
  simp only [acceptSys]
  split
  · split
    · split
      · exact ⟨rfl, rfl⟩
      · split <;> exact ⟨rfl, rfl⟩
    · exact ⟨rfl, rfl⟩
  · split <;> exact ⟨rfl, rfl⟩

theorem NP.setFaultSpin {cfg s} (h : NP cfg s) (f : Fault)
    (hf : f = .spinAcceptOne ∨ f = .spinWaker ∨ f = .spinAccept) : NP cfg { s with fault := some f } := by
  refine ⟨sound_of_view_eq rfl h.sound, ?_⟩
  rcases hf with rfl | rfl | rfl <;> (unfold NoPanic; simp)

theorem idx_lt_512 {cfg s} (ok : CfgOk cfg) (h : Sound cfg s) {w : Nat} (hw : w ∈ s.handles) : (s.wk w).idx < 512 := by
  have h1 : w < s.nWk := h.hlt w hw
  have h2 : (s.wk w).idx < cfg.nIdx := h.idxlt w h1
  have := ok.max; omega

theorem setAvail_np {cfg s} (h : NP cfg s) (idx : Nat) (v : Bool) (h512 : idx < 512)
    (hv : v = true → ∃ w ∈ s.handles, (s.wk w).idx = idx) : NP cfg (setAvail s idx v) := by
  unfold setAvail; rw [if_pos h512]
  refine ⟨?_, h.nopanic⟩
  cases v with
  | false => exact SoundV.setAvailFalse h.sound idx
  | true => exact SoundV.setAvailTrue h.sound idx (hv rfl)

theorem setNext_np {cfg s} (h : NP cfg s) (hne : s.handles ≠ []) : NP cfg (setNext s) ∧ (setNext s).handles = s.handles := by
  unfold setNext
  have hl : s.handles.length ≠ 0 := fun h0 => hne (List.length_eq_zero_iff.mp h0)
  rw [if_neg hl]
  refine ⟨⟨?_, h.nopanic⟩, rfl⟩
  exact SoundV.setNext h.sound _ (fun _ => Nat.mod_lt _ (Nat.pos_of_ne_zero hl)) (fun he => absurd he hne)


theorem sendPrim_vframe (s : St) (w : Nat) (c : Conn) : VFrame s (sendPrim s w c) := by
  refine ⟨?_, rfl⟩
  simp only [view, sendPrim]
  congr 1
  funext v; by_cases hv : v = w <;> simp [upd, hv]

theorem incPrim_np {cfg s} (h : NP cfg s) (w idx : Nat) (h512 : idx < 512) : NP cfg (incPrim cfg s w idx) ∧
    (incPrim cfg s w idx).handles = s.handles := by
  have hv : VFrame s { s with wk := upd s.wk w { s.wk w with c := (s.wk w).c + 1 }, pend := none } := by
    refine ⟨?_, rfl⟩
    simp only [view]
    congr 1
    funext v; by_cases hv : v = w <;> simp [upd, hv]
  unfold incPrim; simp only
  split
  · exact ⟨h.vframe hv, rfl⟩
  · refine ⟨setAvail_np (h.vframe hv) idx false h512 (by intro h; cases h), ?_⟩
    unfold setAvail; split <;> rfl

theorem handles_next_some {cfg s} (h : Sound cfg s) (hne : s.handles ≠ []) : ∃ w, s.handles[s.next]? = some w ∧ w ∈ s.handles := by
  have hlt : s.next < s.handles.length := h.next1 hne
  exact ⟨s.handles[s.next], List.getElem?_eq_getElem hlt, List.getElem_mem _⟩

theorem sendFail_np {cfg} (ok : CfgOk cfg) {s} (h : NP cfg s) (w : Nat) (c : Conn) (hw : s.handles[s.next]? = some w) :
    NP cfg (sendFail s w c).1 ∧ ((sendFail s w c).2 = false → (sendFail s w c).1.handles ≠ []) := by
  have hwm : w ∈ s.handles := List.mem_of_getElem? hw
  have h512 := idx_lt_512 ok h.sound hwm
  have hlen : (swapRemove s.handles s.next).length = s.handles.length - 1 := swapRemove_length _ _
  have hk : s.next < s.handles.length := (List.getElem?_eq_some_iff.mp hw).1
  have key : ∀ k, (swapRemove s.handles s.next ≠ [] → k < (swapRemove s.handles s.next).length) →
      (swapRemove s.handles s.next = [] → k = 0) →
      ∀ s' : St, view s' = View.mk (view s).idxOf (view s).nWk (swapRemove s.handles s.next) k (upd s.avail (s.wk w).idx false) (view s).pend (s.faultedLog ++ [(s.wk w).idx]) (view s).restarted → s'.fault = s.fault → NP cfg s' := by
    intro k h1 h0 s' hv hf
    refine ⟨?_, by rw [hf]; exact h.nopanic⟩
    unfold Sound; rw [hv]
    exact SoundV.remove h.sound w hw k h1 h0
  simp only [sendFail, removeNext, setAvail, h512, ↓reduceIte]
  split
  · rename_i he
    have he' : swapRemove s.handles s.next = [] := by simpa using he
    have hn0 : s.next = 0 := by
      have : (swapRemove s.handles s.next).length = 0 := by rw [he']; rfl
      omega
    refine ⟨key s.next (fun hne => absurd he' hne) (fun _ => hn0) _ rfl rfl, by intro hf; cases hf⟩
  · rename_i hne
    have hne' : swapRemove s.handles s.next ≠ [] := by simpa using hne
    split
    · rename_i hle
      refine ⟨key 0 (fun _ => ?_) (fun _ => rfl) _ rfl rfl, fun _ => hne'⟩
      exact Nat.pos_of_ne_zero (fun h0 => hne' (List.length_eq_zero_iff.mp h0))
    · rename_i hle
      refine ⟨key s.next (fun _ => ?_) (fun he => absurd he hne') _ rfl rfl, fun _ => hne'⟩
      exact Nat.lt_of_not_le hle


theorem sendConnection_np {cfg} (ok : CfgOk cfg) {s} (h : NP cfg s) (hne : s.handles ≠ []) (c : Conn) :
    NP cfg (sendConnection cfg s c).1 ∧ ((sendConnection cfg s c).2 = false → (sendConnection cfg s c).1.handles ≠ []) := by
  unfold sendConnection
  split
  · exact ⟨h, by intro hf; cases hf⟩
  · obtain ⟨w, hw, hwm⟩ := handles_next_some h.sound hne
    rw [hw]
    simp only
    split
    · -- alive: send, W1, inc, set_next
      have h1 : NP cfg (sendPrim s w c) := h.vframe (sendPrim_vframe s w c)
      have h2 := yieldPt_np cfg _ h1
      have hh2 : (yieldPt cfg (sendPrim s w c)).handles = s.handles := by rw [yieldPt_handles]; rfl
      obtain ⟨h3, hh3⟩ := incPrim_np h2 w (s.wk w).idx (idx_lt_512 ok h.sound hwm)
      have hne3 : (incPrim cfg (yieldPt cfg (sendPrim s w c)) w (s.wk w).idx).handles ≠ [] := by rw [hh3, hh2]; exact hne
      exact ⟨(setNext_np h3 hne3).1, by intro hf; cases hf⟩
    · exact sendFail_np ok h w c hw

theorem forcedSend_np {cfg} (ok : CfgOk cfg) : ∀ (fuel : Nat) (s : St) (c : Conn), NP cfg s → s.handles ≠ [] →
    NP cfg (forcedSend cfg fuel s c) := by
  intro fuel; induction fuel with
  | zero => intro s c h _; exact h.setFaultSpin _ (Or.inl rfl)
  | succ f ih =>
    intro s c h hne
    simp only [forcedSend]
    obtain ⟨h1, h2⟩ := sendConnection_np ok h hne c
    generalize sendConnection cfg s c = r at h1 h2
    obtain ⟨s1, b⟩ := r
    cases b with
    | true => exact h1
    | false => exact ih s1 c h1 (h2 rfl)

theorem acceptOne_np {cfg} (ok : CfgOk cfg) : ∀ (fuel : Nat) (s : St) (c : Conn), NP cfg s → s.handles ≠ [] →
    NP cfg (acceptOne cfg fuel s c) := by
  intro fuel; induction fuel with
  | zero => intro s c h _; exact h.setFaultSpin _ (Or.inl rfl)
  | succ f ih =>
    intro s c h hne
    simp only [acceptOne]
    split
    · exact h
    · obtain ⟨w, hw, hwm⟩ := handles_next_some h.sound hne
      rw [hw]; simp only
      split
      · obtain ⟨h1, h2⟩ := sendConnection_np ok h hne c
        generalize sendConnection cfg s c = r at h1 h2
        obtain ⟨s1, b⟩ := r
        cases b with
        | true => exact h1
        | false => exact ih s1 c h1 (h2 rfl)
      · have h1 := setAvail_np h (s.wk w).idx false (idx_lt_512 ok h.sound hwm) (by intro hf; cases hf)
        have hh1 : (setAvail s (s.wk w).idx false).handles = s.handles := by unfold setAvail; split <;> rfl
        obtain ⟨h2, hh2⟩ := setNext_np h1 (by rw [hh1]; exact hne)
        have hne2 : (setNext (setAvail s (s.wk w).idx false)).handles ≠ [] := by rw [hh2, hh1]; exact hne
        split
        · exact forcedSend_np ok _ _ c h2 hne2
        · exact ih _ c h2 hne2

theorem anyAvail_handles {cfg s} (h : Sound cfg s) (ha : anyAvail cfg s = true) : s.handles ≠ [] := by
  unfold anyAvail at ha
  obtain ⟨i, _, hi⟩ := List.any_eq_true.mp ha
  obtain ⟨w, hw, _⟩ := h.bit i hi
  exact List.ne_nil_of_mem hw

theorem accept_np {cfg} (ok : CfgOk cfg) : ∀ (fuel : Nat) (s : St) (l : Nat), NP cfg s → NP cfg (accept cfg fuel s l) := by
  intro fuel; induction fuel with
  | zero => intro s l h; exact h.setFaultSpin _ (Or.inr (Or.inr rfl))
  | succ f ih =>
    intro s l h
    simp only [accept]
    split
    · exact h
    · split
      · exact h
      · rename_i hany
        have hany' : anyAvail cfg s = true := by simpa using hany
        have h0 := yieldPt_np cfg s h
        have fr := acceptSys_vframe (yieldPt cfg s) l
        have hav : (acceptSys (yieldPt cfg s) l).1.avail = s.avail := by
          have := congrArg View.avail fr.1; simp only [view] at this; rw [this, yieldPt_avail]
        generalize acceptSys (yieldPt cfg s) l = r at fr hav
        obtain ⟨s1, res⟩ := r
        simp only at fr hav ⊢
        have h1 : NP cfg s1 := h0.vframe fr
        have hne1 : s1.handles ≠ [] := anyAvail_handles h1.sound (by unfold anyAvail at hany' ⊢; rw [hav]; exact hany')
        cases res with
        | conn c => exact ih _ l (acceptOne_np ok _ s1 c h1 hne1)
        | wouldBlock => exact h1
        | connErr => exact ih _ l h1
        | otherErr =>
          exact h1.vframe (VFrame.trans (deregister_vframe s1 l) (VFrame.trans ⟨rfl, rfl⟩ (setTimeout_vframe _ _)))

theorem acceptAllFrom_np {cfg} (ok : CfgOk cfg) : ∀ (ls : List Nat) (s : St), NP cfg s → NP cfg (acceptAllFrom cfg s ls) := by
  intro ls; induction ls with
  | nil => intro s h; exact h
  | cons l ls ih => intro s h; simp only [acceptAllFrom]; exact ih _ (accept_np ok _ s l h)

theorem acceptAll_np {cfg} (ok : CfgOk cfg) {s} (h : NP cfg s) : NP cfg (acceptAll cfg s) := acceptAllFrom_np ok _ s h


theorem hasHandleIdx_mem (s : St) (idx : Nat) (h : hasHandleIdx s idx = true) : ∃ w ∈ s.handles, (s.wk w).idx = idx := by
  unfold hasHandleIdx at h
  obtain ⟨w, hw, hi⟩ := List.any_eq_true.mp h
  exact ⟨w, hw, by simpa using hi⟩

theorem popWq_np {cfg s} (h : NP cfg s) (i : Interest) (q : List Interest) (hq : s.wq = i :: q)
    (hi : ∀ w, i ≠ .worker w) : NP cfg { s with wq := q } := by
  cases i with
  | worker w => exact absurd rfl (hi w)
  | _ => exact NP.vframe (s := s) ⟨by simp [view, hq, pendingWorkers], rfl⟩ h

theorem handleWaker_np {cfg} (ok : CfgOk cfg) : ∀ (fuel : Nat) (s : St), NP cfg s → NP cfg (handleWaker cfg fuel s).1 := by
  intro fuel; induction fuel with
  | zero => intro s h; exact h.setFaultSpin _ (Or.inr (Or.inl rfl))
  | succ f ih =>
    intro s h
    simp only [handleWaker]
    split
    · exact h
    · have h0 := yieldPt_np cfg s h
      generalize yieldPt cfg s = s0 at h0 ⊢
      cases hwq : s0.wq with
      | nil => exact h0
      | cons i q =>
        simp only
        cases i with
        | workerAvail idx =>
          have h1 : NP cfg { s0 with wq := q } := popWq_np h0 _ q hwq (by intro w hw; cases hw)
          have h2 : NP cfg (wakePrim { s0 with wq := q } idx) := by
            unfold wakePrim
            split
            · rename_i hh
              obtain ⟨w, hw, hidx⟩ := hasHandleIdx_mem _ idx hh
              exact setAvail_np h1 idx true (by rw [← hidx]; exact idx_lt_512 ok h1.sound hw) (fun _ => ⟨w, hw, hidx⟩)
            · exact h1
          simp only
          split
          · exact ih _ (acceptAll_np ok h2)
          · exact ih _ h2
        | worker w =>
          have hp : (view s0).pend = w :: pendingWorkers q := by
            simp only [view, hwq, pendingWorkers, List.filterMap_cons]
          have hwlt : w < s0.nWk := h0.sound.plt w (by rw [hp]; exact List.mem_cons_self)
          have h512 : (s0.wk w).idx < 512 := by
            have := h0.sound.idxlt w hwlt; have := ok.max; simp only [view] at *; omega
          have h3 : NP cfg (addWorker { s0 with wq := q } w) := by
            refine ⟨?_, by simp only [addWorker, setAvail, h512, ↓reduceIte]; exact h0.nopanic⟩
            have key := SoundV.addWorker h0.sound w (pendingWorkers q) hp
            unfold Sound
            have hv : view (addWorker { s0 with wq := q } w) =
                View.mk (view s0).idxOf (view s0).nWk ((view s0).handles ++ [w]) (view s0).next
                  (upd (view s0).avail ((view s0).idxOf w) true) (pendingWorkers q) (view s0).flog (view s0).restarted := by
              simp only [addWorker, setAvail, h512, ↓reduceIte, view]
            rw [hv]; exact key
          simp only
          split
          · exact ih _ (acceptAll_np ok h3)
          · exact ih _ h3
        | pause =>
          have h1 : NP cfg { s0 with wq := q } := popWq_np h0 _ q hwq (by intro w hw; cases hw)
          simp only
          split
          · have h1' : NP cfg { s0 with wq := q, paused := true } := NP.vframe (s := { s0 with wq := q }) ⟨rfl, rfl⟩ h1
            exact ih _ (h1'.vframe (deregisterAllFrom_vframe _ _))
          · exact ih _ h1
        | resume =>
          have h1 : NP cfg { s0 with wq := q } := popWq_np h0 _ q hwq (by intro w hw; cases hw)
          simp only
          split
          · have h1' : NP cfg { s0 with wq := q, paused := false } := NP.vframe (s := { s0 with wq := q }) ⟨rfl, rfl⟩ h1
            exact ih _ (acceptAll_np ok (h1'.vframe (registerAllFrom_vframe _ _)))
          · exact ih _ h1
        | stop =>
          have h1 : NP cfg { s0 with wq := q } := popWq_np h0 _ q hwq (by intro w hw; cases hw)
          simp only
          split
          · exact NP.vframe (s := deregisterAll { s0 with wq := q }) ⟨rfl, rfl⟩ (h1.vframe (deregisterAllFrom_vframe _ _))
          · exact NP.vframe (s := { s0 with wq := q }) ⟨rfl, rfl⟩ h1

theorem pollEvents_np {cfg} (ok : CfgOk cfg) : ∀ (order : List Ev) (s : St), NP cfg s → NP cfg (pollEvents cfg s order).1 := by
  intro order; induction order with
  | nil => intro s h; exact h
  | cons e es ih =>
    intro s h
    simp only [pollEvents]
    cases e with
    | waker =>
      simp only
      have hw := handleWaker_np ok (wakerFuel s) s h
      generalize handleWaker cfg (wakerFuel s) s = r at hw
      obtain ⟨s1, ex⟩ := r
      simp only at hw ⊢
      split
      · exact hw
      · exact ih _ hw
    | listener l => exact ih _ (accept_np ok _ s l h)

theorem poll_np {cfg} (ok : CfgOk cfg) {s} (h : NP cfg s) (order : List Ev) (sched : List (List EnvAct)) :
    NP cfg (poll cfg s order sched) := by
  unfold poll
  split
  · exact h
  · have h0 : NP cfg (clearEdges { s with sched := sched, yields := 0 }) := NP.vframe (s := s) ⟨rfl, rfl⟩ h
    have h1 := pollEvents_np ok order _ h0
    generalize (pollEvents cfg (clearEdges { s with sched := sched, yields := 0 }) order) = r at h1
    unfold pollFinish
    split
    · exact NP.vframe (s := r.1) ⟨rfl, rfl⟩ h1
    · exact NP.vframe (s := processTimeout r.1) ⟨rfl, rfl⟩ (h1.vframe (processTimeout_vframe _))

theorem step_np {cfg} (ok : CfgOk cfg) {s} (h : NP cfg s) (op : Op) : NP cfg (step cfg s op) := by
  cases op with
  | env a => exact runEnv_np cfg [a] s h
  | poll order sched => exact poll_np ok h order sched
  | finishW2 w c order =>
    simp only [step]
    have h1 : NP cfg { (envStep cfg s (.finish w c)).1 with acts := (envStep cfg s (.finish w c)).1.acts ++ [(envStep cfg s (.finish w c)).2] } :=
      NP.vframe (s := (envStep cfg s (.finish w c)).1) ⟨rfl, rfl⟩ (envStep_np cfg s (.finish w c) h)
    split
    · exact runEnv_np cfg _ _ (poll_np ok h1 order [])
    · exact h1

theorem run_np {cfg} (ok : CfgOk cfg) : ∀ (ops : List Op) (s : St), NP cfg s → NP cfg (run cfg s ops) := by
  intro ops; induction ops with
  | nil => intro s h; exact h
  | cons op ops ih => intro s h; simp only [run]; exact ih _ (step_np ok h op)

theorem init_np (cfg : Cfg) (kinds : List Kind) : NP cfg (init cfg kinds) := by
  refine ⟨⟨?_, ?_, ?_, ?_, ?_, ?_, ?_, ?_, ?_⟩, ?_⟩
  · intro w hw; simpa [view, init] using hw
  · intro w hw; simp [view, init, pendingWorkers] at hw
  · intro w hw; simpa [view, init, initWk] using hw
  · intro i hi; simp [view, init] at hi
  · simp only [ledgerOf, view, init, pendingWorkers, initWk, List.filterMap_nil, List.map_nil, List.drop_nil, List.append_nil]
    have : (List.range cfg.nIdx).map (fun w => w) = List.range cfg.nIdx := List.map_id' _
    rw [this]; exact List.nodup_range
  · intro i hi
    have : i < cfg.nIdx := by simpa [view, init] using hi
    exact ⟨i, by simpa [view, init] using this, by simp [view, init, initWk]⟩
  · intro hne; simp only [view, init, List.length_range] at hne ⊢
    apply Nat.pos_of_ne_zero; intro h0; apply hne; simp [h0]
  · intro _; rfl
  · simp [view, init]
  · unfold NoPanic; simp [init]


end ActixNet.Srv
