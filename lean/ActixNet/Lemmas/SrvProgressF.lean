import ActixNet.Lemmas.SrvProgress
/-!
# Progress of the accept loop in histories WITH worker deaths (C03 / C01 / C08)

`reachable_accept_dispatches_waiting` (SrvProgress.lean) is stated for fault-free histories.  Here the same
step for EVERY reachable state: the connection waiting first on a listener is, by the next `accept` on that
listener, dispatched to a worker — or dropped because not a single worker handle was left (every worker
dead and discovered), which is the only way the accept thread ever gives a connection up.
-/
namespace ActixNet.Srv
open ActixNet

theorem envStep_dropped_ext (cfg : Cfg) (s : St) (a : EnvAct) : Ext s.dropped (envStep cfg s a).1.dropped := by
  cases a <;> simp only [envStep] <;> (repeat' split) <;>
    first
      | exact Ext.refl _
      | exact ⟨_, rfl⟩
      | (simp only [pushWq]; exact Ext.refl _)

theorem runEnv_dropped_ext (cfg : Cfg) : ∀ (as : List EnvAct) (s : St), Ext s.dropped (runEnv cfg s as).dropped := by
  intro as; induction as with
  | nil => intro s; exact Ext.refl _
  | cons a as ih =>
    intro s; simp only [runEnv]
    exact (envStep_dropped_ext cfg s a).trans (ih _)

theorem yieldPt_dropped_ext (cfg : Cfg) (s : St) : Ext s.dropped (yieldPt cfg s).dropped := by
  unfold yieldPt; split
  · exact Ext.refl _
  · exact runEnv_dropped_ext cfg _ _

theorem setAvail_dropped (s : St) (i : Nat) (v : Bool) : (setAvail s i v).dropped = s.dropped := by
  unfold setAvail; split <;> rfl
theorem setNext_dropped (s : St) : (setNext s).dropped = s.dropped := by
  unfold setNext; split <;> rfl
theorem incPrim_dropped (cfg : Cfg) (s : St) (w i : Nat) : (incPrim cfg s w i).dropped = s.dropped := by
  unfold incPrim; simp only; split
  · rfl
  · rw [setAvail_dropped]

theorem sendFail_dropped_ext (s : St) (w : Nat) (c : Conn) : Ext s.dropped (sendFail s w c).1.dropped := by
  have h : (removeNext s w).dropped = s.dropped := by unfold removeNext; rw [setAvail_dropped]
  unfold sendFail; simp only
  split
  · exact ⟨[c], by simp [h]⟩
  · split <;> exact Ext.of_eq h

theorem sendConnection_dropped_ext (cfg : Cfg) (s : St) (c : Conn) : Ext s.dropped (sendConnection cfg s c).1.dropped := by
  unfold sendConnection
  split
  · exact Ext.refl _
  · split
    · exact Ext.refl _
    · rename_i w _
      split
      · have : Ext s.dropped (yieldPt cfg (sendPrim s w c)).dropped := yieldPt_dropped_ext cfg (sendPrim s w c)
        rw [setNext_dropped, incPrim_dropped]; exact this
      · exact sendFail_dropped_ext s w c

theorem forcedSend_dropped_ext (cfg : Cfg) : ∀ (fuel : Nat) (s : St) (c : Conn), Ext s.dropped (forcedSend cfg fuel s c).dropped := by
  intro fuel; induction fuel with
  | zero => intro s c; exact Ext.refl _
  | succ f ih =>
    intro s c
    simp only [forcedSend]
    have h1 := sendConnection_dropped_ext cfg s c
    generalize sendConnection cfg s c = r at h1
    obtain ⟨s1, b⟩ := r
    cases b with
    | true => exact h1
    | false => exact h1.trans (ih s1 c)

theorem acceptOne_dropped_ext (cfg : Cfg) : ∀ (fuel : Nat) (s : St) (c : Conn), Ext s.dropped (acceptOne cfg fuel s c).dropped := by
  intro fuel; induction fuel with
  | zero => intro s c; exact Ext.refl _
  | succ f ih =>
    intro s c
    simp only [acceptOne]
    split
    · exact Ext.refl _
    · split
      · exact Ext.refl _
      · rename_i w _
        split
        · have h1 := sendConnection_dropped_ext cfg s c
          generalize sendConnection cfg s c = r at h1
          obtain ⟨s1, b⟩ := r
          cases b with
          | true => exact h1
          | false => exact h1.trans (ih s1 c)
        · have h2 : Ext s.dropped (setNext (setAvail s (s.wk w).idx false)).dropped :=
            Ext.of_eq (by rw [setNext_dropped, setAvail_dropped])
          split
          · exact h2.trans (forcedSend_dropped_ext cfg _ _ c)
          · exact h2.trans (ih _ c)

theorem acceptSys_dropped (s : St) (l : Nat) : (acceptSys s l).1.dropped = s.dropped := by
  unfold acceptSys; simp only
  split
  · rename_i e es _
    cases e with
    | kind k => simp only; split
                · rfl
                · split <;> rfl
    | emfile => rfl
  · split <;> rfl

theorem accept_dropped_ext (cfg : Cfg) : ∀ (fuel : Nat) (s : St) (l : Nat), Ext s.dropped (accept cfg fuel s l).dropped := by
  intro fuel; induction fuel with
  | zero => intro s l; exact Ext.refl _
  | succ f ih =>
    intro s l
    simp only [accept]
    split
    · exact Ext.refl _
    · split
      · exact Ext.refl _
      · have h0 : Ext s.dropped (acceptSys (yieldPt cfg s) l).1.dropped := by
          rw [acceptSys_dropped]; exact yieldPt_dropped_ext cfg s
        generalize acceptSys (yieldPt cfg s) l = r at h0
        obtain ⟨s1, res⟩ := r
        simp only at h0 ⊢
        cases res with
        | conn c => exact h0.trans ((acceptOne_dropped_ext cfg _ s1 c).trans (ih _ l))
        | wouldBlock => exact h0
        | connErr => exact h0.trans (ih s1 l)
        | otherErr =>
          refine h0.trans (Ext.of_eq ?_)
          have st : ∀ (x : St) (d : Nat), (setTimeout x d).dropped = x.dropped := by
            intro x d; unfold setTimeout; split
            · split <;> rfl
            · rfl
          rw [st]; rfl

/-- **Progress, with worker deaths.**  In any state that satisfies the structural invariant `NP` (every
reachable state does: `run_np`), with no fault: if some availability bit is set and connection `c` is the
first one waiting on listener `l` (no injected accept error in front of it), then `accept` on `l` — with
any fuel ≥ 1, when no other thread interferes at its yield points — dispatches `c` to a worker, or drops
it because no worker handle at all was left. -/
theorem accept_places_waiting {cfg : Cfg} (ok : CfgOk cfg) (fuel : Nat) (s : St) (l : Nat) (c : Conn) (b : List Conn)
    (np : NP cfg s) (hf : s.fault = none) (hany : anyAvail cfg s = true) (hsched : s.sched = [])
    (hi : (s.lst l).inject = []) (hb : (s.lst l).backlog = c :: b) :
    (∃ w, (c, w) ∈ (accept cfg (fuel + 1) s l).dispatched) ∨ c ∈ (accept cfg (fuel + 1) s l).dropped := by
  have hy : yieldPt cfg s = { s with yields := s.yields + 1 } := by unfold yieldPt; rw [hsched]
  generalize hs1 : ({ ({ s with yields := s.yields + 1 } : St) with lst := upd s.lst l { s.lst l with backlog := b } } : St) = s1
  have hsys : acceptSys (yieldPt cfg s) l = (s1, .conn c) := by
    rw [hy, ← hs1]; simp [acceptSys, hi, hb]
  have e : accept cfg (fuel + 1) s l = accept cfg fuel (acceptOne cfg (acceptOneFuel s1) s1 c) l := by
    simp only [accept]
    rw [if_neg (by simp [hf]), if_neg (by simp [hany]), hsys]
  rw [e]
  have vf : VFrame s s1 := by subst hs1; exact ⟨rfl, rfl⟩
  have n1 : NP cfg s1 := np.vframe vf
  have hf1 : s1.fault = none := by rw [vf.2]; exact hf
  have hav1 : s1.avail = s.avail := by subst hs1; rfl
  have hany1 : anyAvail cfg s1 = true := by rw [anyAvail_congr hav1]; exact hany
  have hne : s1.handles ≠ [] := anyAvail_handles n1.sound hany1
  have hnf : (acceptOne cfg (acceptOneFuel s1) s1 c).fault = none := by
    have p := (acceptOne_np ok (acceptOneFuel s1) s1 c n1 hne).nopanic
    have q := acceptOne_nospin ok (acceptOneFuel s1) s1 c n1 hne (acceptOneFuel_ok n1 hne) (by unfold NoSpinAO; rw [hf1]; simp)
    have r := acceptOne_aw cfg (acceptOneFuel s1) s1 c (by unfold NoSpinAW; rw [hf1]; simp)
    unfold NoPanic at p; unfold NoSpinAO at q; unfold NoSpinAW at r
    cases hx : (acceptOne cfg (acceptOneFuel s1) s1 c).fault with
    | none => rfl
    | some f => rw [hx] at p q r; cases f <;> simp at p q r
  rcases acceptOne_log cfg (acceptOneFuel s1) s1 c hnf with ⟨_, w, _, _, _, hd⟩ | ⟨_, _, hdr⟩
  · left
    refine ⟨w, (accept_ext cfg fuel _ l).mem ?_⟩
    rw [hd]; simp
  · right
    exact (accept_dropped_ext cfg fuel _ l).mem hdr

/-- **… for every reachable state of EVERY history** (worker deaths, late notifications, replacements). -/
theorem reachable_accept_places_waiting {cfg : Cfg} (ok : CfgOk cfg) (kinds : List Kind) (ops : List Op)
    (fuel l : Nat) (c : Conn) (b : List Conn)
    (hany : anyAvail cfg (run cfg (init cfg kinds) ops) = true)
    (hi : ((run cfg (init cfg kinds) ops).lst l).inject = [])
    (hb : ((run cfg (init cfg kinds) ops).lst l).backlog = c :: b) :
    (∃ w, (c, w) ∈ (accept cfg (fuel + 1) (run cfg (init cfg kinds) ops) l).dispatched) ∨
      c ∈ (accept cfg (fuel + 1) (run cfg (init cfg kinds) ops) l).dropped :=
  accept_places_waiting ok fuel _ l c b (run_np ok ops _ (init_np cfg kinds)) (run_fault_none ok kinds ops) hany
    (run_sched_nil cfg ops _ rfl) hi hb

end ActixNet.Srv
