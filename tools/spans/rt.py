"""T1 spans for actix-rt (C09, C10): structural facts the `Rt` model's transition rules are written from.

Real threads cannot be translated into a kernel, so these spans do not produce executable kernels
but *shape facts*: each is a Bool regenerated from the current source text (comments stripped).
`ActixNet.Props.C09/C10` prove `source_shape_*` = "all facts are true" by `decide`; a change to the
decisive lines (the `Exit` arm no longer stops the arbiters, `Stop => continue`, Register sent after
the ready signal, …) regenerates a `false` and the obligation breaks."""
_SYS = "actix-rt/src/system.rs"
_ARB = "actix-rt/src/arbiter.rs"


def _ws(rx):
    """a readable pattern -> whitespace-insensitive regex"""
    return r"\s*".join(re.escape(p) for p in rx.split())


def _has(text, pat):
    return re.search(_ws(pat), text, re.S) is not None


def _squash(text):
    return re.sub(r"\s+", "", text)


def _block_after(text, start):
    """inner text of the first `{…}` block that opens at or after `start` (None if unbalanced)"""
    i = text.find("{", start)
    if i < 0:
        return None
    depth = 0
    for j in range(i, len(text)):
        if text[j] == "{":
            depth += 1
        elif text[j] == "}":
            depth -= 1
            if depth == 0:
                return text[i + 1:j]
    return None


def _fn_body_is(text, sig, body):
    """the function whose signature starts with `sig` consists of exactly the statement(s) `body`
    (whitespace-insensitive): no other path through it"""
    m = re.search(_ws(sig), text, re.S)
    if not m:
        return False
    b = _block_after(text, m.end())
    return b is not None and _squash(b) == _squash(body)


def _lean(facts):
    return "\n".join("def %s : Bool := %s" % (k, "true" if v else "false") for k, v in facts)


def _controller(src):
    m = re.search(r"impl Future for SystemController\b.*?\n\}\n", src, re.S)
    if not m:
        raise Fail("impl Future for SystemController not found")
    body = m.group(0)
    a = re.search(r"SystemCommand::Exit\(code\)\s*=>(.*?)SystemCommand::RegisterArbiter\(id, arb\)\s*=>(.*?)SystemCommand::DeregisterArbiter\(id\)\s*=>(.*)", body, re.S)
    if not a:
        raise Fail("SystemController::poll: expected the arms Exit(code), RegisterArbiter(id, arb), DeregisterArbiter(id) in this order")
    ex, reg, dereg = a.groups()
    facts = [
        ("rtExitStopsAll", _has(ex, "for arb in self . arbiters . values ( ) { arb . stop ( ) ; }")),
        ("rtExitSendsCodeOnce", _has(ex, "if let Some ( stop_tx ) = self . stop_tx . take ( ) { let _ = stop_tx . send ( code ) ; }")),
        ("rtRegisterInserts", _has(reg, "self . arbiters . insert ( id , arb ) ;")),
        ("rtDeregisterRemoves", _has(dereg, "self . arbiters . remove ( & id ) ;")),
        ("rtCtrlLoopsUntilPending", _has(body, "loop { match ready ! ( self . cmd_rx . poll_recv ( cx ) )")),
        # the arms do nothing else: every registration is recorded, whatever state the controller is in
        ("rtRegisterOnlyInserts", _squash(_block_after(reg, 0) or "") == _squash("self.arbiters.insert(id, arb);")),
        ("rtDeregisterOnlyRemoves", _squash(_block_after(dereg, 0) or "") == _squash("self.arbiters.remove(&id);")),
    ]
    return _lean(facts), body


def _run(src):
    m = re.search(r"pub fn run\(self\).*?\n    \}\n.*?pub fn run_with_code\(self\).*?\n    \}\n", src, re.S)
    if not m:
        raise Fail("SystemRunner::run / run_with_code not found")
    body = m.group(0)
    facts = [
        ("rtRunZeroIsOk", _has(body, "match exit_code { 0 => Ok ( ( ) ) , nonzero => Err (")),
        ("rtRunUsesRunWithCode", _has(body, "let exit_code = self . run_with_code ( ) ? ;")),
        ("rtRunWithCodeBlocksOnOneshot", _has(body, "rt . block_on ( stop_rx )")),
        ("rtStopSendsExit", _has(src, "pub fn stop_with_code ( & self , code : i32 ) { let _ = self . sys_tx . send ( SystemCommand :: Exit ( code ) ) ; }")),
    ]
    return _lean(facts), body + re.search(r"pub fn stop_with_code.*?\n    \}\n", src, re.S).group(0)


def _thread(src):
    m = re.search(r"pub fn with_tokio_rt<F>\(runtime_factory: F\) -> Arbiter.*?\n    \}\n", src, re.S)
    if not m:
        raise Fail("Arbiter::with_tokio_rt not found")
    body = m.group(0)
    marks = [
        ("set_current", "System :: set_current ( sys ) ;"),
        ("handle", "HANDLE . with ("),
        ("register", "send ( SystemCommand :: RegisterArbiter ("),
        ("ready", "ready_tx . send ( ( ) ) . unwrap ( ) ;"),
        ("run", "rt . block_on ( ArbiterRunner { rx } ) ;"),
        ("deregister", "send ( SystemCommand :: DeregisterArbiter ("),
        ("wait_ready", "ready_rx . recv ( ) . unwrap ( ) ;"),
        ("return", "Arbiter { tx , thread_handle }"),
    ]
    pos = {}
    for name, pat in marks:
        mm = re.search(_ws(pat), body, re.S)
        if not mm:
            raise Fail("Arbiter::with_tokio_rt: statement %r not found" % pat)
        pos[name] = mm.start()
    order = [n for n, _ in sorted(pos.items(), key=lambda kv: kv[1])]
    facts = [
        ("rtThreadLocalsBeforeRegister", pos["set_current"] < pos["register"] and pos["handle"] < pos["register"]),
        ("rtRegisterBeforeReady", pos["register"] < pos["ready"]),
        ("rtReadyBeforeRun", pos["ready"] < pos["run"]),
        ("rtDeregisterAfterRun", pos["run"] < pos["deregister"]),
        ("rtNewWaitsForReady", pos["wait_ready"] < pos["return"] and pos["deregister"] < pos["wait_ready"]),
        # the registry key is the arbiter's own process-wide number, on both sides
        ("rtRegisterOwnId", _has(body, "let arb_id = COUNT . fetch_add ( 1 , Ordering :: Relaxed ) ;")
            and _has(body, "send ( SystemCommand :: RegisterArbiter ( arb_id , hnd ) ) ;")),
        ("rtDeregisterOwnId", _has(body, "send ( SystemCommand :: DeregisterArbiter ( arb_id ) ) ;")),
        # the thread-local is overwritten with this arbiter's handle
        ("rtArbThreadSetsHandle", _has(body, "HANDLE . with ( | cell | * cell . borrow_mut ( ) = Some ( hnd . clone ( ) ) ) ;")),
    ]
    lean = _lean(facts) + "\ndef rtThreadOrder : List String := [%s]" % ", ".join('"%s"' % n for n in order)
    return lean, body


def _runner(src):
    m = re.search(r"impl Future for ArbiterRunner\b.*?\n\}\n", src, re.S)
    if not m:
        raise Fail("impl Future for ArbiterRunner not found")
    body = m.group(0)
    h = re.search(r"impl ArbiterHandle \{.*?\n\}\n", src, re.S)
    if not h:
        raise Fail("impl ArbiterHandle not found")
    hb = h.group(0)
    a = re.search(r"impl Arbiter \{.*?\n\}\n", src, re.S)
    ab = a.group(0) if a else ""
    facts = [
        ("rtRunnerLoopsUntilPending", _has(body, "loop { match ready ! ( self . rx . poll_recv ( cx ) )")),
        # two equivalent shapes of the three arms: nested (`Some(item) => match item { Stop => …, Execute(f) => … }`) or
        # flat with the two ending arms merged (`None | Some(Stop) => return Ready(())`, harmless/h10)
        ("rtRunnerClosedEnds", _has(body, "None => return Poll :: Ready ( ( ) ) ,")
            or _has(body, "None | Some ( ArbiterCommand :: Stop ) => return Poll :: Ready ( ( ) ) ,")),
        ("rtRunnerStopEnds", _has(body, "ArbiterCommand :: Stop => { return Poll :: Ready ( ( ) ) ; }")
            or _has(body, "None | Some ( ArbiterCommand :: Stop ) => return Poll :: Ready ( ( ) ) ,")),
        ("rtRunnerExecuteSpawnsLocal", _has(body, "ArbiterCommand :: Execute ( task_fut ) => { tokio :: task :: spawn_local ( task_fut ) ; }")
            or _has(body, "Some ( ArbiterCommand :: Execute ( task_fut ) ) => { tokio :: task :: spawn_local ( task_fut ) ; }")),
        ("rtHandleSpawnSends", _has(hb, "self . tx . send ( ArbiterCommand :: Execute ( Box :: pin ( future ) ) ) . is_ok ( )")),
        ("rtHandleSpawnFnIsSpawn", _has(hb, "self . spawn ( async { f ( ) } )")),
        ("rtHandleStopSends", _has(hb, "self . tx . send ( ArbiterCommand :: Stop ) . is_ok ( )")),
        ("rtArbiterSpawnSends", _has(ab, "self . tx . send ( ArbiterCommand :: Execute ( Box :: pin ( future ) ) ) . is_ok ( )")),
        ("rtArbiterStopSends", _has(ab, "self . tx . send ( ArbiterCommand :: Stop ) . is_ok ( )")),
        ("rtJoinJoinsThread", _has(ab, "self . thread_handle . join ( )")),
        # … and that is all these functions do: the command channel is the only path to the loop
        # (no same-thread short cut), and a function is sent as the future `async { f() }`
        ("rtHandleSpawnOnlySends", _fn_body_is(hb, "pub fn spawn < Fut > ( & self , future : Fut ) -> bool",
                                               "self.tx.send(ArbiterCommand::Execute(Box::pin(future))).is_ok()")),
        ("rtHandleSpawnFnOnlySpawn", _fn_body_is(hb, "pub fn spawn_fn < F > ( & self , f : F ) -> bool", "self.spawn(async { f() })")),
        ("rtHandleStopOnlySends", _fn_body_is(hb, "pub fn stop ( & self ) -> bool", "self.tx.send(ArbiterCommand::Stop).is_ok()")),
        ("rtArbiterSpawnOnlySends", _fn_body_is(ab, "pub fn spawn < Fut > ( & self , future : Fut ) -> bool",
                                                "self.tx.send(ArbiterCommand::Execute(Box::pin(future))).is_ok()")),
        ("rtArbiterSpawnFnOnlySpawn", _fn_body_is(ab, "pub fn spawn_fn < F > ( & self , f : F ) -> bool", "self.spawn(async { f() })")),
        ("rtArbiterStopOnlySends", _fn_body_is(ab, "pub fn stop ( & self ) -> bool", "self.tx.send(ArbiterCommand::Stop).is_ok()")),
        # `join` is the thread's join and nothing else (no early return on any path)
        ("rtJoinOnlyJoins", _fn_body_is(ab, "pub fn join ( self ) -> thread :: Result < ( ) >", "self.thread_handle.join()")),
    ]
    return _lean(facts), body + hb + ab


def _in_new_system(src):
    """`Arbiter::in_new_system` + `Arbiter::current`: the system arbiter and the HANDLE thread-local"""
    m = re.search(r"pub\(crate\) fn in_new_system\(\) -> ArbiterHandle \{.*?\n    \}\n", src, re.S)
    if not m:
        raise Fail("Arbiter::in_new_system not found")
    body = m.group(0)
    c = re.search(r"pub fn current\(\) -> ArbiterHandle \{.*?\n    \}\n", src, re.S)
    if not c:
        raise Fail("Arbiter::current not found")
    cur = c.group(0)
    set_pat = "HANDLE . with ( | cell | * cell . borrow_mut ( ) = Some ( hnd . clone ( ) ) ) ;"
    spawn_pat = "crate :: spawn ( ArbiterRunner { rx } ) ;"
    ms, mp = re.search(_ws(set_pat), body, re.S), re.search(_ws(spawn_pat), body, re.S)
    facts = [
        # overwritten unconditionally with the NEW system arbiter's handle, whatever the thread hosted before
        ("rtInNewSystemSetsHandle", ms is not None and len(re.findall(r"HANDLE", body)) == 1
            and _has(body, "let hnd = ArbiterHandle :: new ( tx ) ;")),
        ("rtInNewSystemSpawnsRunner", mp is not None and ms is not None and ms.start() < mp.start()
            and _has(body, "let ( tx , rx ) = mpsc :: unbounded_channel ( ) ;")),
        ("rtCurrentReadsHandle", _has(cur, "HANDLE . with ( | cell | match * cell . borrow ( ) { Some ( ref hnd ) => hnd . clone ( ) ,")),
    ]
    return _lean(facts), body + cur


def _construct(src):
    """`System::with_tokio_rt` / `construct` / `set_current`: the CURRENT thread-local, the system arbiter's Register"""
    w = re.search(r"pub fn with_tokio_rt<F>\(runtime_factory: F\) -> SystemRunner.*?\n    \}\n", src, re.S)
    k = re.search(r"pub\(crate\) fn construct\(.*?\n    \}\n", src, re.S)
    sc = re.search(r"pub fn set_current\(sys: System\) \{.*?\n    \}\n", src, re.S)
    if not (w and k and sc):
        raise Fail("System::with_tokio_rt / construct / set_current not found")
    wb, kb, sb = w.group(0), k.group(0), sc.group(0)
    order = [re.search(_ws(p), wb, re.S) for p in (
        "let sys_arbiter = rt . block_on ( async { Arbiter :: in_new_system ( ) } ) ;",
        "let system = System :: construct ( sys_tx , sys_arbiter . clone ( ) ) ;",
        "send ( SystemCommand :: RegisterArbiter ( usize :: MAX , sys_arbiter ) )",
        "rt . spawn ( sys_ctrl ) ;",
        "SystemRunner { rt , stop_rx }")]
    facts = [
        ("rtSysArbRegisteredFirst", all(order) and all(order[i].start() < order[i + 1].start() for i in range(len(order) - 1))),
        ("rtConstructSetsCurrent", _has(kb, "id : SYSTEM_COUNT . fetch_add ( 1 , Ordering :: SeqCst ) ,")
            and _has(kb, "System :: set_current ( sys . clone ( ) ) ;")),
        ("rtSetCurrentOverwrites", _has(sb, "CURRENT . with ( | cell | { * cell . borrow_mut ( ) = Some ( sys ) ; } )")),
    ]
    return _lean(facts), wb + kb + sb


register("rt_controller_poll", span_custom(_SYS, _controller))
register("rt_run", span_custom(_SYS, _run))
register("rt_arbiter_thread", span_custom(_ARB, _thread))
register("rt_runner_and_handle", span_custom(_ARB, _runner))
register("rt_in_new_system", span_custom(_ARB, _in_new_system))
register("rt_system_construct", span_custom(_SYS, _construct))
