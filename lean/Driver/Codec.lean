import ActixNet.Model.Lines
import Driver.Util
/-! Engine `codec`: line protocol for the actix-codec models (C13 Framed read side, C14 Framed
write side, C15 LinesCodec). -/
namespace Driver.Codec
open Driver ActixNet

structure State where
  dummy : Nat := 0

def init : State := {}

/-! ## C15: LinesCodec on a contiguous buffer -/

def resStr : Lines.Res → String
  | .none => "none"
  | .ok s => "ok:" ++ toHex s
  | .err => "err"

def resList (rs : List Lines.Res) : String := "[" ++ ",".intercalate (rs.map resStr) ++ "]"

/-- `decode` until `None`, then `decode_eof` until `None`, and what is left in the buffer -/
def linesRun (s : List Nat) : String :=
  let (xs, rest) := Lines.decodeLoop (s.length + 1) s
  let (ys, rest') := Lines.eofLoop (rest.length + 2) rest
  s!"dec={resList xs} mid={toHex rest} eof={resList ys} rest={toHex rest'}"

def parseAll (ws : List String) : Option (List (List Nat)) := ws.mapM parseHex

def step (st : State) (line : String) : State × String :=
  match words line with
  | "case" :: _ => (init, "ok")
  | ["dec", h] => match parseHex h with
    | some bs => (st, linesRun bs)
    | none => (st, "bad-op")
  | "enc" :: hs => match parseAll hs with
    | some xs =>
      if xs.all Utf8.valid then (st, toHex (xs.foldl (fun dst x => Lines.encode x dst) []))
      else (st, "bad-op")   -- not a `str`: the harness cannot even issue it
    | none => (st, "bad-op")
  | "rt" :: hs => match parseAll hs with
    | some xs =>
      if xs.all Utf8.valid then
        let buf := xs.foldl (fun dst x => Lines.encode x dst) []
        (st, s!"buf={toHex buf} {linesRun buf}")
      else (st, "bad-op")
    | none => (st, "bad-op")
  | _ => (st, "bad-op")

end Driver.Codec
