import Driver.Util
/-! Engine `worker`: line protocol (stub — filled in by the owner of this engine). -/
namespace Driver.Worker
open Driver

structure State where
  dummy : Nat := 0

def init : State := {}

def step (st : State) (line : String) : State × String :=
  match words line with
  | "case" :: _ => (init, "ok")
  | _ => (st, "bad-op")

end Driver.Worker
