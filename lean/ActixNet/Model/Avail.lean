import ActixNet.Generated.Src
/-!
# Model: `Availability` — the 4 × u128 bitset of actix-server/src/availability.rs

The word-level bodies (`availOffset`, `availGet`, `availSet`, `availAny`) are **generated** from the
Rust source (T1); this file only adds the array plumbing (`self.0[offset]`).
`none` = the documented panic ("Max WorkerHandle count is 512").
-/
namespace ActixNet.Avail
open ActixNet

structure Avail where
  w0 : BitVec 128 := 0
  w1 : BitVec 128 := 0
  w2 : BitVec 128 := 0
  w3 : BitVec 128 := 0
deriving DecidableEq, Repr

def Avail.word (a : Avail) (o : Nat) : BitVec 128 :=
  if o = 0 then a.w0 else if o = 1 then a.w1 else if o = 2 then a.w2 else a.w3

def Avail.setWord (a : Avail) (o : Nat) (w : BitVec 128) : Avail :=
  if o = 0 then { a with w0 := w } else if o = 1 then { a with w1 := w }
  else if o = 2 then { a with w2 := w } else { a with w3 := w }

/-- `Availability::get_available` -/
def get (a : Avail) (idx : Nat) : Option Bool :=
  match Src.availOffset idx with
  | none => none
  | some (o, i) => some (Src.availGet (a.word o) i)

/-- `Availability::set_available` -/
def set (a : Avail) (idx : Nat) (v : Bool) : Option Avail :=
  match Src.availOffset idx with
  | none => none
  | some (o, i) => some (a.setWord o (Src.availSet (a.word o) i v))

/-- `Availability::available` -/
def available (a : Avail) : Bool := Src.availAny [a.w0, a.w1, a.w2, a.w3]

end ActixNet.Avail
