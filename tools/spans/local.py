"""T1 spans for actix-utils / local-channel / local-waker (C16, C17, C18 gate)"""
_UC = dict(
    reads={"self.count.get()": "count", "self.capacity": "capacity"},
    writes={"self.count.set(_)": ("count", "arg0"), "self.task.wake()": ("woke", "true"),
            "self.task.register(_)": ("registered", "true")},
    bools=("woke", "registered"),
)
register("utils_counter_inc", span_fn("actix-utils/src/counter.rs", "inc", "CounterInner", "ucInc",
         "(count capacity : Nat)", "Nat", dict(_UC, state=["count"], result="state")))
register("utils_counter_dec", span_fn("actix-utils/src/counter.rs", "dec", "CounterInner", "ucDec",
         "(count capacity : Nat) (woke : Bool := false)", "Nat × Bool", dict(_UC, state=["count", "woke"], result="state")))
register("utils_counter_available", span_fn("actix-utils/src/counter.rs", "available", "CounterInner", "ucAvailable",
         "(count capacity : Nat) (registered : Bool := false)", "Bool × Bool", dict(_UC, state=["registered"], result="both")))


