import ActixNet.Lemmas.Framed
/-!
# C13 — Framed decoding does not depend on how the bytes arrive

Property theorems only.  `nextItem`/`pollNext`/`pollN` (Model/Framed.lean) transcribe
`Framed::next_item` (framed.rs:177–233) over an abstract codec and a scripted transport
(`data chunk | pending | ioErr | eof`, exhausted script = EOF).  `whole c k str` is what a consumer
of the whole stream sees from a fresh codec: every frame / decode error of `str`, then `k`
end-of-stream outputs (`decode_eof` until and beyond `None`).  `streamOf script` / `eventsOf script`
are the bytes and the `Pending`/I-O-error answers a script delivers before end of file.
-/
namespace ActixNet.C13
open ActixNet.Src ActixNet.Framed

/-- `LinesCodec` satisfies the codec law -/
theorem lines_stable : Stable linesCodec := linesCodec_stable

/-- the length-prefixed test codec satisfies the codec law -/
theorem lenprefix_stable : Stable lenCodec := lenCodec_stable

/-- … and so does the second length-prefixed test codec, whose `decode_eof` emits several
end-of-stream frames (a truncated frame as a `T`-frame, then one `E`-frame on the empty buffer) -/
theorem lenx_stable : Stable lenxCodec := lenxCodec_stable

/-- all end-of-stream frames come out, in order, then `None`: `[2, 7]` is a truncated frame -/
example : (pollN lenxCodec 6 (rinit [.data [1, 9, 2], .pending, .data [7]])).1 =
    [.item [9], .pending, .item [84, 2, 7], .item [69], .none, .none] := by decide
example : whole lenxCodec 3 [1, 9, 2, 7] = [.item [9], .item [84, 2, 7], .item [69], .none] := by decide

example : linesCodec.decode [97, 10, 98] = .frame [97] [98] := by decide
example : lenCodec.decode [2, 7, 8, 9] = .frame [7, 8] [9] := by decide
example : lenCodec.decode [255, 1] = .err .InvalidInput [1] := by decide

/-- `BytesCodec` does not satisfy it (a frame is everything buffered so far) -/
example : ¬ Stable bytesCodec := fun h => by
  have := h.frame_ext [1] [1] [] [2] (by decide)
  revert this; decide

/-- **chunking is irrelevant** (prefix form, any number of polls): whatever the composition of the
stream into chunks, wherever `Pending`s and I/O errors are placed, the frame outputs of `n` polls
(items, decode errors, end of stream) are a prefix of the outputs of the whole stream -/
theorem chunking_irrelevant_prefix {F} (c : Codec F) (hs : Stable c) (script : List Rd) (n : Nat) :
    frames (pollN c n (rinit script)).1 <+: whole c n (streamOf script) := by
  have := (pollN_spec c hs n (rinit script) (good_rinit script)).1
  simpa [expect, rinit] using this

/-- every poll answers (the loop never runs out of fuel), and the `Pending`s and I/O errors come
out exactly as scripted, in order: each is surfaced once and reading continues -/
theorem events_in_order {F} (c : Codec F) (hs : Stable c) (script : List Rd) (n : Nat) :
    (pollN c n (rinit script)).1.length = n ∧ Out.spin ∉ (pollN c n (rinit script)).1 ∧
    events (pollN c n (rinit script)).1 <+: eventsOf script := by
  have h := pollN_spec c hs n (rinit script) (good_rinit script)
  refine ⟨pollN_length c n _, h.2.2.1, ?_⟩
  simpa [evs, rinit] using h.2.1

/-- **C13**: for every stable codec, every script (= every composition of the stream into
chunks, every placement of `Pending` and of I/O errors) and every `m`: once enough polls were made
(`m` plus the number of scripted transport events), the first `m` frame outputs are exactly the
first `m` outputs of the whole stream — all frames of `decode` in order, then the end-of-stream
frames of `decode_eof`, then `None`; nothing lost, duplicated or reordered -/
theorem chunking_irrelevant {F} (c : Codec F) (hs : Stable c) (script : List Rd) (n m : Nat)
    (hn : m + (eventsOf (F := F) script).length ≤ n) :
    (frames (pollN c n (rinit script)).1).take m = (whole c m (streamOf script)).take m := by
  have hp := chunking_irrelevant_prefix c hs script n
  obtain ⟨hl, _, he⟩ := events_in_order c hs script n
  have hfe := frames_events_length (pollN c n (rinit script)).1
  have hel := he.length_le
  have hm : m ≤ (frames (pollN c n (rinit script)).1).length := by omega
  rw [take_of_prefix hp m hm]
  exact (take_of_prefix (whole_mono_le c _ m n (by omega)) m (whole_length c m _)).symm

/-- two ways of delivering the same stream give the same frames -/
theorem same_stream_same_frames {F} (c : Codec F) (hs : Stable c) (s1 s2 : List Rd) (n1 n2 m : Nat)
    (hstr : streamOf s1 = streamOf s2)
    (h1 : m + (eventsOf (F := F) s1).length ≤ n1) (h2 : m + (eventsOf (F := F) s2).length ≤ n2) :
    (frames (pollN c n1 (rinit s1)).1).take m = (frames (pollN c n2 (rinit s2)).1).take m := by
  rw [chunking_irrelevant c hs s1 n1 m h1, chunking_irrelevant c hs s2 n2 m h2, hstr]

/-- the same line stream, delivered whole or byte by byte with a `Pending` and an I/O error -/
example : streamOf [.data [97, 13, 10, 98, 10, 99]] =
    streamOf [.data [97], .pending, .data [13], .data [10], .ioErr .BrokenPipe, .data [98, 10, 99]] := by
  decide
example : (pollN linesCodec 9 (rinit
      [.data [97], .pending, .data [13], .data [10], .ioErr .BrokenPipe, .data [98, 10, 99]])).1 =
    [.pending, .item [97], .ioErr .BrokenPipe, .item [98], .item [99], .none, .none, .none, .none] := by
  decide
example : (pollN linesCodec 4 (rinit [.data [97, 13, 10, 98, 10, 99]])).1 =
    [.item [97], .item [98], .item [99], .none] := by decide
example : whole linesCodec 2 [97, 13, 10, 98, 10, 99] = [.item [97], .item [98], .item [99], .none] := by
  decide
/-- the length-prefixed codec with tokio-util's default `decode_eof`: a truncated frame makes the
end-of-stream phase answer errors for ever (hence the prefix form of the theorem) -/
example : (pollN lenCodec 5 (rinit [.data [1], .data [7, 2], .pending, .data [8]])).1 =
    [.item [7], .pending, .decErr .Other, .decErr .Other, .decErr .Other] := by decide

/-- `BytesCodec`: the items are non-empty and their concatenation is the stream (a chunking of it),
there is never a decode error, and once `None` was answered everything has been delivered -/
theorem bytes_concat (script : List Rd) (n : Nat) :
    (payloads (pollN bytesCodec n (rinit script)).1).flatten <+: streamOf script ∧
    (∀ f, Out.item f ∈ (pollN bytesCodec n (rinit script)).1 → f ≠ []) ∧
    (∀ k, Out.decErr k ∉ (pollN bytesCodec n (rinit script)).1) ∧
    Out.spin ∉ (pollN bytesCodec n (rinit script)).1 ∧
    (Out.none ∈ (pollN bytesCodec n (rinit script)).1 →
      (payloads (pollN bytesCodec n (rinit script)).1).flatten = streamOf script) := by
  obtain ⟨h1, h2, h3, h4, h5, _⟩ := pollNB_spec n (rinit script) (goodB_rinit script)
  have hr : remaining (rinit script) = streamOf script := by simp [remaining, rinit]
  rw [hr] at h1
  refine ⟨⟨_, h1⟩, h2, h3, h4, fun hn => ?_⟩
  rw [h5 hn, List.append_nil] at h1
  exact h1

example : (pollN bytesCodec 4 (rinit [.data [1, 2], .pending, .data [3]])).1 =
    [.item [1, 2], .pending, .item [3], .none] := by decide

/-- an I/O error of the transport is surfaced as a stream item; buffer and flags are untouched and
the next poll reads on from the next scripted answer -/
theorem io_error_surfaced {F} (c : Codec F) (s : RState) (k : ErrorKind) (t : List Rd)
    (heof : s.eof = false) (hneed : c.decode s.buf = .need) (hsc : s.script = .ioErr k :: t) :
    (pollNext c s).1 = .ioErr k ∧ (pollNext c s).2.script = t ∧ (pollNext c s).2.buf = s.buf ∧
    (pollNext c s).2.eof = false ∧ (pollNext c s).2.readable = false := by
  unfold pollNext
  rw [show scriptSize s.script + 3 = (scriptSize s.script + 2) + 1 from rfl, nextItem_succ]
  cases hr : s.readable <;>
    simp [decodePhase, hr, heof, hneed, readThen, readPhase, hsc]

/-- a decode error is surfaced as a stream item; the codec's remainder stays buffered and the
stream stays readable, so the next poll decodes on -/
theorem decode_error_surfaced {F} (c : Codec F) (s : RState) (k : ErrorKind) (r : Bytes)
    (heof : s.eof = false) (hr : s.readable = true) (hd : c.decode s.buf = .err k r) :
    (pollNext c s).1 = .decErr k ∧ (pollNext c s).2.buf = r ∧
    (pollNext c s).2.readable = true ∧ (pollNext c s).2.script = s.script := by
  unfold pollNext
  rw [show scriptSize s.script + 3 = (scriptSize s.script + 2) + 1 from rfl, nextItem_succ]
  simp [decodePhase, hr, heof, hd]

example : (pollN linesCodec 3 (rinit [.data [255, 10, 97, 10]])).1 =
    [.decErr .InvalidData, .item [97], .none] := by decide

/-- **no spurious EOF**: whatever the buffer state, after the water-mark check every read has room
for at least `LW ≥ 1` bytes, so a transport that has bytes delivers at least one: `cnt = 0` (which
sets the EOF flag) happens only at a real end of file -/
theorem no_spurious_eof (s : RState) (bs : Bytes) (t : List Rd) (hbs : bs ≠ [])
    (hsc : s.script = .data bs :: t) :
    0 < framedLW ∧ framedLW ≤ readRoom s.room ∧
    ∃ s2, readPhase (F := Unit) s = .inr s2 ∧ s2.eof = s.eof ∧ s.buf.length < s2.buf.length := by
  have hroom := readRoom_ge s.room
  have hlw := lw_pos
  refine ⟨hlw, hroom, ?_⟩
  have hlen : 0 < bs.length := List.length_pos_iff.mpr hbs
  have hcnt : 0 < min bs.length (readRoom s.room) := by omega
  simp only [readPhase, hsc, readEof_pos _ hcnt, Bool.or_false]
  refine ⟨_, rfl, rfl, ?_⟩
  simp; omega

example : readRoom 0 = framedHW ∧ readRoom 1023 = framedHW - 1023 ∧ readRoom 1024 = 1024 := by decide

/-- the flag invariant `EOF → READABLE` holds in every reachable state, which is what makes the
`debug_assert!(!EOF)` before the read (framed.rs:215) unreachable -/
theorem eof_implies_readable {F} (c : Codec F) (hs : Stable c) (script : List Rd) (n : Nat) :
    (pollN c n (rinit script)).2.eof = true → (pollN c n (rinit script)).2.readable = true :=
  (pollN_spec c hs n (rinit script) (good_rinit script)).2.2.2

/-- **codec swap** (`into_map_codec`, `replace_codec`, `into_parts` + `from_parts`: flags and
`read_buf` are carried over, only the codec changes — in the model the codec is a parameter of
`pollN`, the state is untouched).  After any number of polls with `c1`, polling on with another
stable codec `c2` yields a prefix of what `c2` decodes from the bytes not yet consumed (what is
buffered followed by what the transport still delivers; at EOF the end-of-stream outputs of the
buffer) — however those bytes arrived and wherever `Pending`s and I/O errors are placed; the
transport events still come out as scripted and every poll answers.  No assumption links the two
codecs: in particular READABLE may be clear (`c1` needed more data) while `c2` can decode a frame
from the buffer; that frame then comes out after the next read, in order -/
theorem swap_chunking_irrelevant {F G} (c1 : Codec F) (c2 : Codec G) (h1 : Stable c1) (h2 : Stable c2)
    (script : List Rd) (n1 n2 : Nat) :
    frames (pollN c2 n2 (pollN c1 n1 (rinit script)).2).1 <+:
      expect c2 n2 (pollN c1 n1 (rinit script)).2 ∧
    events (pollN c2 n2 (pollN c1 n1 (rinit script)).2).1 <+:
      (evs (pollN c1 n1 (rinit script)).2 : List (Out G)) ∧
    Out.spin ∉ (pollN c2 n2 (pollN c1 n1 (rinit script)).2).1 := by
  have g1 := (pollN_spec c1 h1 n1 (rinit script) (good_rinit script)).2.2.2
  have h := pollN_spec c2 h2 n2 _ g1
  exact ⟨h.1, h.2.1, h.2.2.1⟩

/-- two lines coalesced in one read, the first consumed, then the codec is swapped (here: for a
fresh `LinesCodec`) while the transport is `Pending`: the second line is still buffered and READABLE
is still set, so it comes out *before* the `Pending` (a swap that dropped the flags would answer
`Pending` first — and never yield the line if the peer waits for the reply to it) -/
example : (pollN linesCodec 1 (rinit [.data [104, 10, 119, 10], .pending, .data [120, 10]])).1 = [.item [104]] ∧
    (pollN linesCodec 4 (pollN linesCodec 1 (rinit [.data [104, 10, 119, 10], .pending, .data [120, 10]])).2).1 =
      [.item [119], .pending, .item [120], .none] := by decide
/-- swap from the length-prefixed codec to `LinesCodec` in the middle of a read: the same frames
whether the bytes arrive in one read or one by one -/
example : (pollN linesCodec 3 (pollN lenCodec 1 (rinit [.data [1, 7, 97, 10, 98]])).2).1 =
      [.item [97], .item [98], .none] ∧
    (pollN lenCodec 1 (rinit [.data [1, 7, 97, 10, 98]])).1 = [.item [7]] ∧
    (pollN lenCodec 1 (rinit [.data [1], .data [7], .data [97], .data [10], .data [98]])).1 = [.item [7]] ∧
    (pollN linesCodec 3 (pollN lenCodec 1 (rinit [.data [1], .data [7], .data [97], .data [10], .data [98]])).2).1 =
      [.item [97], .item [98], .none] := by decide
/-- READABLE clear at the swap although the new codec can decode the buffer: the frame comes out
after the next read (here a `Pending` first), nothing is lost or reordered -/
example : (pollN lenCodec 1 (rinit [.data [5, 97, 10], .pending])).1 = [.pending] ∧
    (pollN linesCodec 3 (pollN lenCodec 1 (rinit [.data [5, 97, 10], .pending])).2).1 =
      [.item [5, 97], .none, .none] := by decide

/-- **what a codec swap finds does not depend on how the bytes arrived**: as long as the end of file
has not been seen, the bytes not yet consumed after any number of polls (what is buffered followed by
what the transport still delivers) are exactly what the codec leaves of the whole stream after the
items / decode errors it has yielded — whatever the composition into chunks, wherever `Pending`s and
I/O errors are placed -/
theorem unconsumed_chunking_irrelevant {F} (c : Codec F) (hs : Stable c) (script : List Rd) (n : Nat)
    (he : (pollN c n (rinit script)).2.eof = false) :
    unconsumed (pollN c n (rinit script)).2 =
      leftover c (takenBy (pollN c n (rinit script)).1) (streamOf script) := by
  simpa [unconsumed, rinit] using pollN_rem c hs n (rinit script) he

/-- … so two ways of delivering the same stream, polled until the same number of frames came out,
leave a new codec the same outputs to come (with `swap_chunking_irrelevant`: the same frames) -/
theorem swap_same_stream {F G} (c1 : Codec F) (c2 : Codec G) (h1 : Stable c1)
    (s1 s2 : List Rd) (n1 n2 k : Nat) (hstr : streamOf s1 = streamOf s2)
    (hm : takenBy (pollN c1 n1 (rinit s1)).1 = takenBy (pollN c1 n2 (rinit s2)).1)
    (he1 : (pollN c1 n1 (rinit s1)).2.eof = false) (he2 : (pollN c1 n2 (rinit s2)).2.eof = false) :
    expect c2 k (pollN c1 n1 (rinit s1)).2 = expect c2 k (pollN c1 n2 (rinit s2)).2 := by
  have u1 := unconsumed_chunking_irrelevant c1 h1 s1 n1 he1
  have u2 := unconsumed_chunking_irrelevant c1 h1 s2 n2 he2
  simp only [expect, he1, he2, Bool.false_eq_true, if_false]
  simp only [unconsumed] at u1 u2
  rw [u1, u2, hm, hstr]

example : leftover lenCodec 1 [1, 7, 97, 10, 98] = [97, 10, 98] ∧
    unconsumed (pollN lenCodec 1 (rinit [.data [1], .pending, .data [7, 97], .data [10, 98]])).2 = [1, 7, 97, 10, 98] ∧
    unconsumed (pollN lenCodec 2 (rinit [.data [1], .pending, .data [7, 97], .data [10, 98]])).2 = [97, 10, 98] ∧
    takenBy (pollN lenCodec 2 (rinit [.data [1], .pending, .data [7, 97], .data [10, 98]])).1 = 1 := by decide

/-- **bytes handed over in `read_buf`** (`Framed::from_parts` of `FramedParts::with_read_buf`: flags
empty, whatever the capacity of the buffer; `FramedParts::new` is the case `b = []`): they count as
the beginning of the stream — the frame outputs are a prefix of the outputs of `b ++ stream` decoded
at once, the transport events come out as scripted, every poll answers.  (The flags being empty, the
first poll reads before it decodes: a frame that is complete in `b` comes out after that read, in
order; see the example.) -/
theorem handed_over_buffer {F} (c : Codec F) (hs : Stable c) (b : Bytes) (room : Nat)
    (script : List Rd) (n : Nat) :
    frames (pollN c n { buf := b, room := room, script := script }).1 <+:
      whole c n (b ++ streamOf script) ∧
    events (pollN c n { buf := b, room := room, script := script }).1 <+: eventsOf script ∧
    Out.spin ∉ (pollN c n { buf := b, room := room, script := script }).1 := by
  have h := pollN_spec c hs n { buf := b, room := room, script := script } (fun h => by simp at h)
  refine ⟨?_, ?_, h.2.2.1⟩
  · simpa [expect] using h.1
  · simpa [evs] using h.2.1

example : (pollN linesCodec 4 { buf := [97, 10, 98], room := 0, script := [.pending, .data [10]] }).1 =
    [.pending, .item [97], .item [98], .none] := by decide

end ActixNet.C13
