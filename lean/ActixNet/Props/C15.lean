import ActixNet.Lemmas.Lines
/-!
# C15 — LinesCodec frames lines exactly

Property theorems only.  `decode`, `decodeEof`, `encode` (Model/Lines.lean) transcribe
actix-codec/src/lines.rs; `decodeAll s` is what a consumer sees for the whole stream `s` (every
`decode` result until `None`, then every `decode_eof` result until `None`).  `splitSpec` is the
independent reference: split at every LF, strip one trailing CR, validate as UTF-8, final
unterminated segment yielded iff non-empty after stripping one CR.
-/
namespace ActixNet.C15
open ActixNet.Utf8 ActixNet.Lines

/-- **decoding = the reference splitter**, for every byte string -/
theorem decode_eq_spec (s : Bytes) : decodeAll s = splitSpec s := decodeAll_eq_splitSpec s

example : decodeAll [97, 13, 10, 10, 0xFF, 10, 13, 13, 10, 0xC3, 0xA9, 13] =
    [.ok [97], .ok [], .err, .ok [13], .ok [0xC3, 0xA9]] := by decide
example : splitSpec [97, 13, 10, 10, 0xFF, 10, 13, 13, 10, 0xC3, 0xA9, 13] =
    [.ok [97], .ok [], .err, .ok [13], .ok [0xC3, 0xA9]] := by decide

/-- one call of `decode` on a buffer whose first LF is after `a`: the line `a` (one trailing CR
stripped, validated) is returned and exactly `a` and the LF are consumed -/
theorem decode_splits_at_first_lf (a t : Bytes) (h : LF ∉ a) :
    decode (a ++ LF :: t) = (piece (stripCr a), t) := decode_split a t h

example : decode ([97, 13] ++ LF :: [98, 10]) = (.ok [97], [98, 10]) := by decide

/-- without an LF `decode` asks for more data and leaves the buffer untouched -/
theorem decode_waits_for_lf (a : Bytes) (h : LF ∉ a) : decode a = (.none, a) := decode_no_lf a h

example : decode [97, 13] = (.none, [97, 13]) := by decide

/-- at end of stream the unterminated tail is yielded (one trailing CR stripped) iff non-empty -/
theorem decodeEof_tail_rule (a : Bytes) (h : LF ∉ a) :
    decodeEof a = if stripCr a = [] then (.none, a) else
      (piece (stripCr a), if a.getLast? = some CR then [CR] else []) := decodeEof_tail a h

example : decodeEof [97, 13] = (.ok [97], [13]) := by decide
example : decodeEof [13] = (.none, [13]) := by decide

/-- **one codec instance, the buffer growing in pieces** (what `Framed` does between reads, and
what a decoder that remembers how far it has searched must still get right): `decode` until `None`
after every piece, `decode_eof` until `None` at the end — the results are the reference split of the
concatenation, whatever the pieces -/
theorem chunked_eq_spec (pieces : List Bytes) : chunkedAll pieces = splitSpec pieces.flatten :=
  chunkedAll_eq_splitSpec pieces

example : chunkedAll [[97], [10, 10]] = [.ok [97], .ok []] ∧ splitSpec [97, 10, 10] = [.ok [97], .ok []] := by
  decide
example : chunkedAll [[97, 13], [], [10, 0xFF], [10, 98], [13]] = [.ok [97], .err, .ok [98]] := by decide

/-- **`decode_eof` called directly** on a buffer that still holds complete lines (`decode` was not
called first): every line — the invalid ones as errors, not swallowed — then the tail: the
reference split again -/
theorem decodeEof_direct_eq_spec (s : Bytes) : eofAll s = splitSpec s := eofAll_eq_splitSpec s

example : eofAll [97, 10, 0xFF, 10, 98] = [.ok [97], .err, .ok [98]] := by decide
example : decodeEof [0xFF, 10, 98] = (.err, [98]) := by decide

/-- pieces, the last one appended without a `decode` in between, then `decode_eof` until `None` -/
theorem chunked_direct_eof_eq_spec (pieces : List Bytes) :
    chunkedEof pieces = splitSpec pieces.flatten := chunkedEof_eq_splitSpec pieces

example : chunkedEof [[97], [10, 0xFF, 10, 98, 13]] = [.ok [97], .err, .ok [98]] := by decide

/-- encoding appends the item and exactly one LF to the destination buffer -/
theorem encode_appends_lf (item dst : Bytes) : encode item dst = dst ++ item ++ [LF] := rfl

/-- encoding a sequence = concatenation of `item ++ [LF]` -/
theorem encodeAll_concat (xs : List Bytes) : encodeAll xs = (xs.map (· ++ [LF])).flatten :=
  encodeAll_eq xs

example : encodeAll [[97], [], [98, 99]] = [97, 10, 10, 98, 99, 10] := by decide

/-- **round trip**: strings that are valid UTF-8, contain no LF and do not end in CR come back
unchanged, in order -/
theorem roundtrip (xs : List Bytes)
    (h : ∀ x ∈ xs, valid x = true ∧ LF ∉ x ∧ x.getLast? ≠ some CR) :
    decodeAll (encodeAll xs) = xs.map .ok := by
  rw [decode_eq_spec, encodeAll_eq, splitSpec_eq]
  have hl := linesOf_encoded xs (fun x hx => (h x hx).2.1)
  rw [hl.1, hl.2]
  simp only [stripCr, List.getLast?_nil, List.dropLast_nil]
  simp only [reduceCtorEq, if_false, if_true, List.append_nil]
  apply List.map_congr_left
  intro x hx
  obtain ⟨hv, _, hcr⟩ := h x hx
  simp [hcr, piece, hv]

example : (∀ x ∈ [[97], [], [0xC3, 0xA9, 13, 97]],
    valid x = true ∧ LF ∉ x ∧ x.getLast? ≠ some CR) := by decide

/-- the side conditions of `roundtrip` are needed: a string ending in CR does not come back -/
example : decodeAll (encodeAll [[97, 13]]) ≠ [.ok [97, 13]] := by decide
example : decodeAll (encodeAll [[97, 10, 98]]) ≠ [.ok [97, 10, 98]] := by decide

/-- a line that is not valid UTF-8 is answered with an error; the line is consumed, so decoding
continues with the next line -/
theorem invalid_utf8_is_error (a t : Bytes) (h : LF ∉ a) (hv : valid (stripCr a) = false) :
    decode (a ++ LF :: t) = (.err, t) := by
  rw [decode_split a t h]; simp [piece, hv]

example : decode ([0xC3, 13] ++ LF :: [97]) = (.err, [97]) := by decide

/-- never a corrupted string: every string yielded for any input is well-formed UTF-8 -/
theorem ok_is_valid (s x : Bytes) (h : Res.ok x ∈ decodeAll s) : Wf x := by
  rw [decode_eq_spec, splitSpec_eq] at h
  rcases List.mem_append.mp h with h | h
  · obtain ⟨l, _, hl⟩ := List.mem_map.mp h
    obtain ⟨rfl, hv⟩ := piece_ok_valid _ _ hl
    exact (valid_iff_wf _).mp hv
  · split at h
    · simp at h
    · simp only [List.mem_singleton] at h
      obtain ⟨rfl, hv⟩ := piece_ok_valid _ _ h.symm
      exact (valid_iff_wf _).mp hv

/-- the codec law used by C13: a decoded line or error is unaffected by bytes that arrive later,
and strictly consumes input -/
theorem lines_stable (b rest : Bytes) (r : Res) (h : decode b = (r, rest)) (hr : r ≠ .none) :
    (∀ e, decode (b ++ e) = (r, rest ++ e)) ∧ rest.length < b.length :=
  decode_stable b rest r h hr

example : decode [97, 10, 98] = (.ok [97], [98]) ∧ Res.ok [97] ≠ .none := by decide

end ActixNet.C15
