import ActixNet.Lemmas.ServiceRun
/-!
# C11 — service combinators compute exactly the documented composition

Model: `ActixNet.Service` (`Svc`/`Fut`/`poll`/`drive` for services, `Fac`/`IFut`/`ipoll`/`idrive`
for factories).  `eval` is the reference composition (`and_then` runs the second stage on the Ok
value of the first and only then; `map`/`map_err` touch only the matching variant; wrappers are
the identity), `refLog` the reference event log, `facDen` the reference for factories.  All
theorems hold for every tree (any depth) and every script (any number of `Pending`s).
`run n s req w` is what the harness observes for `call req` (n = poll budget of the executor).
-/
namespace ActixNet.C11
open ActixNet.Service

/-- driving the call future to completion yields exactly the reference composition, after exactly
`pendOf s req` Pending polls -/
theorem drive_eq_eval (s : Svc) (req w n : Nat) (hn : pendOf s req < n) :
    (run n s req w).1 = some (eval s req) ∧ (run n s req w).2.2 = w + pendOf s req := by
  rw [run_eq n s req w hn]; exact ⟨rfl, rfl⟩

/-- … and the whole event log (calls, polls with their waker, mapper applications) is the
reference log -/
theorem drive_log_eq_ref (s : Svc) (req w n : Nat) (hn : pendOf s req < n) :
    (run n s req w).2.1 = refLog s req w := by
  rw [run_eq n s req w hn]

/-- `and_then`: the log is the complete run of the first stage, followed — only if it resolved to
`Ok v` — by the complete run of the second stage on `v`, started in the poll that completed the
first; the result is the second stage's (or the first error) -/
theorem second_after_first (a b : Svc) (req w n : Nat) (hn : pendOf (.andThen a b) req < n) :
    (run n (.andThen a b) req w).2.1 =
      (run n a req w).2.1 ++
        (match eval a req with
         | .ok v => (run n b v (w + pendOf a req)).2.1
         | .err _ => []) ∧
    (run n (.andThen a b) req w).1 =
      (match eval a req with
       | .ok v => (run n b v (w + pendOf a req)).1
       | .err e => some (.err e)) := by
  have ha : pendOf a req < n := by simp only [pendOf] at hn; omega
  rw [run_eq n _ req w hn, run_eq n a req w ha]
  cases h : eval a req with
  | ok v =>
    have hb : pendOf b v < n := by simp only [pendOf, h] at hn; omega
    simp [run_eq n b v _ hb, refLog, eval, h]
  | err e => simp [refLog, eval, h]

/-- `map` / `map_err`: the inner run, then the mapper exactly once iff the result is the matching
variant (and never on the other one) -/
theorem mapper_once (s : Svc) (f req w n : Nat) (hn : pendOf s req < n) :
    (run n (.map s f) req w).2.1 =
      (run n s req w).2.1 ++ (match eval s req with | .ok v => [.mapped f v] | .err _ => []) ∧
    (run n (.mapErr s f) req w).2.1 =
      (run n s req w).2.1 ++ (match eval s req with | .ok _ => [] | .err e => [.mappedErr f e]) ∧
    (run n (.map s f) req w).1 = some (match eval s req with | .ok v => .ok (mapFn f v) | .err e => .err e) ∧
    (run n (.mapErr s f) req w).1 = some (match eval s req with | .ok v => .ok v | .err e => .err (mapFn f e)) := by
  rw [run_eq n (.map s f) req w (by simpa [pendOf] using hn), run_eq n (.mapErr s f) req w (by simpa [pendOf] using hn),
    run_eq n s req w hn]
  cases h : eval s req <;> simp [refLog, eval, h]

/-- boxed / rc-boxed / `Rc` / `RefCell` / `&` / `Box` wrappers change neither result nor log nor
readiness -/
theorem wrappers_transparent (k : Wrap) (s : Svc) (req w n : Nat) :
    run n (.wrap k s) req w = run n s req w ∧
    (pollReady (.wrap k s) w).2 = (pollReady s w).2 ∧ (pollReady (.wrap k s) w).1 = .wrap k (pollReady s w).1 := by
  refine ⟨by simp [run, call], ?_, ?_⟩ <;> simp [pollReady]

/-- factories: `new_service(cfg)` driven to completion yields the reference result `facDen`,
at exactly the reference poll -/
theorem fac_drive_eq_eval (f : Fac) (cfg w n : Nat) (hn : (facDen f cfg).1 < n) :
    (facRun n f cfg w).1 = some (facDen f cfg).2 ∧ (facRun n f cfg w).2.2 = w + (facDen f cfg).1 := by
  have h := fac_drive f cfg w n hn
  exact ⟨h.1, h.2.1⟩

/-- every inner (leaf) factory is asked for a service exactly once, with the supplied config as
transformed by the enclosing `map_config` / `unit_config` / `apply_cfg_factory` -/
theorem fac_builds_once (f : Fac) (cfg w n : Nat) (hn : (facDen f cfg).1 < n) :
    newEvts (facRun n f cfg w).2.1 = facLeaves f cfg := by
  have h := fac_drive f cfg w n hn
  simp only [facRun, newEvts_append, newService_news, newEvts_quiet _ h.2.2, List.append_nil]

/-- `and_then` of factories fails with the init error of the half that fails at the earliest poll
(ties go to the left half, which is polled first), and succeeds with both services otherwise -/
theorem first_init_error (a b : Fac) (cfg w n : Nat) (hn : (facDen (.andThen a b) cfg).1 < n) :
    (∀ pa ea, facDen a cfg = (pa, .err ea) →
        (∀ eb, (facDen b cfg).2 = .err eb → pa ≤ (facDen b cfg).1) →
        (facRun n (.andThen a b) cfg w).1 = some (.err ea) ∧ (facRun n (.andThen a b) cfg w).2.2 = w + pa) ∧
    (∀ pb eb, facDen b cfg = (pb, .err eb) →
        (∀ ea, (facDen a cfg).2 = .err ea → pb < (facDen a cfg).1) →
        (facRun n (.andThen a b) cfg w).1 = some (.err eb) ∧ (facRun n (.andThen a b) cfg w).2.2 = w + pb) ∧
    (∀ pa sa pb sb, facDen a cfg = (pa, .ok sa) → facDen b cfg = (pb, .ok sb) →
        (facRun n (.andThen a b) cfg w).1 = some (.ok (.andThen sa sb)) ∧
        (facRun n (.andThen a b) cfg w).2.2 = w + max pa pb) := by
  have h := fac_drive_eq_eval (.andThen a b) cfg w n hn
  rw [h.1, h.2]
  simp only [facDen]
  refine ⟨?_, ?_, ?_⟩
  · intro pa ea ha hb
    rcases hdb : facDen b cfg with ⟨pb, rb⟩
    rw [hdb] at hb
    cases rb with
    | ok sb => simp [ha, joinDen]
    | err eb => have := hb eb rfl; simp [ha, joinDen, this]
  · intro pb eb hb ha
    rcases hda : facDen a cfg with ⟨pa, ra⟩
    rw [hda] at ha
    cases ra with
    | ok sa => simp [hb, joinDen]
    | err ea =>
      have := ha ea rfl
      have hlt : ¬ pa ≤ pb := by simp at this; omega
      simp [hb, joinDen, hlt]
  · intro pa sa pb sb ha hb; simp [ha, hb, joinDen]

/-- `apply(TransformExt::map_init_err(t, m), factory)` (transform_err.rs): the inner service is built
first; an init error of the *transform* is mapped by `m` exactly once, an init error of the inner
factory is passed on unmapped, and a successful transform is not touched -/
theorem transform_init_error_mapped (t tp m : Nat) (a : Fac) (cfg w n : Nat)
    (hn : (facDen (.transform t tp false (some m) a) cfg).1 < n) :
    (∀ p s, facDen a cfg = (p, .ok s) →
        (facRun n (.transform t tp false (some m) a) cfg w).1 = some (.err (mapFn m (initErr t 0))) ∧
        (facRun n (.transform t tp false (some m) a) cfg w).2.2 = w + (p + tp) ∧
        (facDen (.transform t tp true (some m) a) cfg).2 = .ok (.mw s t)) ∧
    (∀ p e, facDen a cfg = (p, .err e) →
        (facRun n (.transform t tp false (some m) a) cfg w).1 = some (.err e) ∧
        (facRun n (.transform t tp false (some m) a) cfg w).2.2 = w + p) := by
  have h := fac_drive_eq_eval (.transform t tp false (some m) a) cfg w n hn
  rw [h.1, h.2]
  refine ⟨?_, ?_⟩
  · intro p s ha; simp [facDen, ha, transRes, mapIErr]
  · intro p e ha; simp [facDen, ha]

/-- re-entrant use of the wrapper impls (lib.rs: `Box<S>`, `Rc<S>`, `RefCell<S>`, `&S`, `&mut S`, the
boxed forms): a service behind wrapper `wk` that, while its own `call(req)` is on the stack, calls
*the same wrapped service* again (odd `req` → `req - 1`), and whose `poll_ready` polls the wrapper
once more, behaves exactly like the bare inner service on the request that reaches it — same result,
same inner log after the shim entries, same number of polls, same readiness; no panic -/
theorem reentrant_wrapper_transparent (wk : Wrap) (k : Nat) (s : Svc) (req w n : Nat) :
    run n (.reenter wk k s) req w =
      ((run n s (reReq req) w).1, reEvts k req ++ (run n s (reReq req) w).2.1, (run n s (reReq req) w).2.2) ∧
    (pollReady (.reenter wk k s) w).2 = (pollReady s w).2 ∧
    eval (.reenter wk k s) req = eval s (reReq req) := by
  refine ⟨by simp [run, call, List.append_assoc], by simp [pollReady], by simp [eval]⟩

/-- … and so do the `ServiceFactory` impls for `Rc<F>` / `Arc<F>` when `new_service(cfg)` re-enters
the same `Rc`/`Arc` (odd `cfg` → `cfg - 1`) -/
theorem reentrant_factory_transparent (k : Nat) (a : Fac) (cfg w n : Nat) :
    facRun n (.reenter k a) cfg w =
      ((facRun n a (reReq cfg) w).1, freEvts k cfg ++ (facRun n a (reReq cfg) w).2.1, (facRun n a (reReq cfg) w).2.2) ∧
    facDen (.reenter k a) cfg = facDen a (reReq cfg) := by
  refine ⟨by simp [facRun, newService, List.append_assoc], by simp [facDen]⟩

/-- `call` is eager: the events of the first stage's own `call` (and of every closure / shim on the way
to it) are emitted by `call(req)` itself, before the returned future is polled — they are a prefix of
the reference log, the rest is what the polls of the future add -/
theorem call_invokes_first_stage_now (s : Svc) (req w : Nat) :
    refLog s req w = (call s req).2 ++ futLog (call s req).1 w :=
  (call_spec s req w).2.2.2.symm

/-- two call futures of the same service alive at once (`call r1`, then `call r2`), the second one
driven first: each resolves to its own reference composition and adds exactly its own remaining log,
whatever the order of the first polls; a future that is dropped unpolled has still made its first
stage's call (`(call s r1).2` is emitted by `call`) -/
theorem two_calls_independent (s : Svc) (r1 r2 w n : Nat) (h1 : pendOf s r1 < n) (h2 : pendOf s r2 < n) :
    drive n (call s r2).1 w = (some (eval s r2), futLog (call s r2).1 w, w + pendOf s r2) ∧
    drive n (call s r1).1 (w + pendOf s r2 + 1) =
      (some (eval s r1), futLog (call s r1).1 (w + pendOf s r2 + 1), w + pendOf s r2 + 1 + pendOf s r1) :=
  ⟨call_drive s r2 w n h2, call_drive s r1 _ n h1⟩

/-! ## Non-vacuity: the hypotheses are met by non-trivial trees and scripts -/

/-- `(a.map(21)).and_then(b.map_err(22))`, `a` pending twice, boxed on top -/
def exSvc : Svc :=
  .wrap .boxed (.andThen (.map (.leaf 0 2 true 1 true) 21) (.mapErr (.leaf 1 1 false 2 false) 22))

example : pendOf exSvc 3 < 10 := by decide
example : eval exSvc 3 = .err 507 := by decide
example : (run 10 exSvc 3 5).1 = some (.err 507) ∧ (run 10 exSvc 3 5).2.2 = 8 :=
  drive_eq_eval exSvc 3 5 10 (by decide)
example : (refLog exSvc 3 0).length = 9 := by decide

/-- both halves fail; the right one earlier -/
def exFac : Fac :=
  .andThen (.mapInitErr (.leaf 60 2 false true (.leaf 0 0 true 0 true)) 23)
           (.transform 31 1 true none (.mapConfig (.leaf 61 1 false true (.leaf 1 0 true 0 true)) 24))

example : facDen exFac 5 = (1, .err (initErr 61 (mapFn 24 5))) := by decide
example : (facRun 10 exFac 5 0).1 = some (.err (initErr 61 (mapFn 24 5))) :=
  (fac_drive_eq_eval exFac 5 0 10 (by decide)).1
example : facLeaves exFac 5 = [(60, 5), (61, mapFn 24 5)] := by decide

/-- apply_cfg_factory over a service that needs two readiness polls -/
def exFac2 : Fac := .applyCfgFac (.map (.leaf 60 1 true true (.leaf 0 1 true 2 true)) 21) 52 1 true
example : (facDen exFac2 7).1 = 4 := by decide

/-- a failing transform whose init error is mapped, over a factory that needs one poll -/
def exFac3 : Fac := .transform 31 2 false (some 23) (.rc (.leaf 60 1 true true (.wrap .refMut (.leaf 0 0 true 0 true))))
example : facDen exFac3 4 = (3, .err (mapFn 23 (initErr 31 0))) := by decide
example : (facRun 10 exFac3 4 0).1 = some (.err (mapFn 23 (initErr 31 0))) :=
  ((transform_init_error_mapped 31 2 23 (.rc (.leaf 60 1 true true (.wrap .refMut (.leaf 0 0 true 0 true)))) 4 0 10
    (by decide)).1 1 (.wrap .refMut (.leaf 0 0 true 0 true)) (by decide)).1

/-- `and_then(map(Rc<RefCell<leaf>>))` with a self-delegating shim: request 3 re-enters with 2 -/
def exRe : Svc := .andThen (.map (.wrap .rc (.reenter .refCell 45 (.leaf 0 1 true 0 true))) 21) (.fnSvc 11 true)
example : reReq 3 = 2 ∧ reEvts 45 3 = [.reent 45 3, .reent 45 2] := by decide
example : eval exRe 3 = eval (.andThen (.map (.leaf 0 1 true 0 true) 21) (.fnSvc 11 true)) 2 := by decide
example : (run 10 exRe 3 0).1 = some (eval exRe 3) := (drive_eq_eval exRe 3 0 10 (by decide)).1
example : facDen (.reenter 46 (.leaf 60 1 true true (.fnSvc 11 true))) 5 = (1, .ok (.fnSvc 11 true)) := by decide

example : (call exSvc 3).2 = [.called 0 3] ∧ (refLog exSvc 3 0).take 1 = [.called 0 3] := by decide
example : pendOf exSvc 3 < 10 ∧ pendOf exSvc 4 < 10 := by decide

end ActixNet.C11
