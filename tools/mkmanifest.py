#!/usr/bin/env python3
"""regenerate MANIFEST.json from props/*.json (+ tools/manifest_base.json)"""
import glob, json, os
V = os.path.dirname(os.path.dirname(os.path.abspath(__file__)))
base = json.load(open(os.path.join(V, "tools", "manifest_base.json")))
all_ids = [json.loads(l)["id"] for l in open(os.path.join(V, "properties.jsonl"))]
checks, engines, claimed = [], {}, set()
for p in sorted(glob.glob(os.path.join(V, "props", "C*.json"))):
    d = json.load(open(p))
    if d.get("disabled"):
        continue
    pid = d["id"]
    claimed.add(pid)
    checks.append({
        "property_id": pid,
        "quick_cmd": "./check %s --tier quick" % pid,
        "thorough_cmd": "./check %s --tier thorough" % pid,
        "evidence_file": "/verif/evidence/%s.json" % pid,
        "replay_cmd_template": "./check %s --replay {path}" % pid,
        "engine": d["engine"],
        "level_claimed": {"category": "proof", "text": d["level_text"] + ((" PARTIAL: " + d["partial"]) if d.get("partial") else ""), "design_ref": d.get("design_ref", "DESIGN.md §6")},
        "level_note": d["level_note"],
        "technique": d["technique"],
    })
    e = engines.setdefault(d["engine"], {"name": d["engine"], "path": "harness/src/bin/%s.rs + lean/Driver" % d["harness_bin"], "serves_properties": [], "kind_free_text": "correspondence harness (real crate, hooks on) + Lean model driver engine `%s`" % d["engine"]})
    e["serves_properties"].append(pid)
engines["lean-proofs"] = {"name": "lean-proofs", "path": "lean/ActixNet", "serves_properties": sorted(claimed), "kind_free_text": "Lean 4 models, lemmas and property theorems; tools/extract.py regenerates Generated/Src.lean from /repo"}
import subprocess
try:
    out = subprocess.run(["git", "-C", "/repo", "log", "--format=%h %s"], capture_output=True, text=True).stdout
    base["hooks"]["source_commits"] = [l.split(" ", 1)[0] for l in out.splitlines() if "verif hook" in l][::-1]
except Exception:
    pass
na_reasons = base.get("not_applicable_reasons", {})
m = {
    "version": 1,
    "setup_cmd": "./tools/setup.sh",
    "hooks": base["hooks"],
    "engines": list(engines.values()),
    "checks": checks,
    "notes": base.get("notes", ""),
    "not_applicable": [{"property_id": i, "reason": na_reasons.get(i, "not yet claimed: model/proof/correspondence for this property are still being built (see DESIGN.md)")} for i in all_ids if i not in claimed],
}
json.dump(m, open(os.path.join(V, "MANIFEST.json"), "w"), indent=1)
print("claimed:", sorted(claimed))
