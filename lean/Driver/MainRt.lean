import Driver.Util
import Driver.Rt
/-! `amodel-rt`: the `rt` engine alone (one executable per engine, so that a model that no longer
builds only affects the properties decided with it). Accepts and ignores the engine name. -/
open Driver

def main (_args : List String) : IO UInt32 := do
  let stdin ← IO.getStdin
  let stdout ← IO.getStdout
  loop stdin stdout Driver.Rt.step Driver.Rt.init
  return 0
